"""C20 - the app monitor converges to the target count without overshoot
(per-evaluation structural clauses)."""

import ast
import re

from .. import cfg as C
from .. import norm as N
from ..index import try_fold, dotted_text
from . import common as K

MON = 'treadmill.sproc.appmonitor'
INST = 'treadmill.api.instance'

EXPLANATION = """
All clauses are on reevaluate() (plus the watch set-up and the instance API).
C20.1 the number requested and the amount subtracted from the budget are one
variable defined as int(min(needed, floor(available))) with
needed = target - current.  C20.2 the create request is dominated by
allowed > 0 and the budget is decremented only after the request returned.
C20.3 refill: the only increasing store to the budget is min(available +
delta, cap) with cap = 2 * count, delta = rate * (now - last_update); initial
budget = cap, rate = 2 * count / 3600 s (folded constants).  C20.4
scale-down: fifo removes the prefix of length current - target, lifo the
suffix of that length, of the per-application list built from an ascending
sort; an unknown policy issues no request.  C20.5 create and delete sit in
different arms of one if/elif over the same two variables.  C20.6 both
requests are dominated by 'not suspended'; the monitors watch removes exactly
known - listed and watches exactly listed - known; each handled failure
class suspends the monitor.  C20.7 the instance API raises under existing +
count > quota for both quotas before anything is created.
Added by the seeding rounds - C20.3 the refill is capped at the budget and a
monitor update starts from 2 * count; C20.4 the scale-down window is count-
bounded for both policies and instances are grouped by app; C20.6 every
notification reaches the removal and watch passes and each handled failure
class suspends the monitor (directly, through a closure or an inlined helper);
C20.7 quota exceeded exactly when existing + count > quota. Fourth round:
C20.3 the monitor callback of the data watch runs only on a changed node
version; C20.7 the per-proid count is published and looked up under the same
key.
Sweep: C20.3 the data watch fires only when the version changed; C20.5 the monitor passes are never cut short; C20.7 the aggregate key agrees with the master.
Fifth round: C20.2 an instance node is created by one direct sequence create per requested instance (never through a retry wrapper); C20.4 updating a monitor replaces the stored count or policy only by a value that was given; C20.6 the deleted / no-stat cases are followed through named booleans.
Sixth round: C20.1 the map of waiting monitors handed to an evaluation is a mapping on every path (never None).
Seventh round: C20.4 the delete request of the scale-down branch does not depend on the rate budget; C20.6 a handled failure class suspends the monitor either in its handler or through a reason left for the block after the try (decided path-sensitively for the constant-valued local).
Ninth round: C20.6 state['suspended'] and state['monitors'] are changed in place and never re-bound after the state dictionary was built.
Tenth round: C20.1 the charge follows the granted create with nothing in between that can raise (the evaluation swallows errors; F33, repaired in /repo).
Does NOT decide convergence and budget over sequences of evaluations.
"""

ASSUMPTIONS = [
    'sorted() of instance names is creation order (ids are zero padded)',
]

MIN_OBLIGATIONS = 20
MIN_PER_RULE = {'C20.1': 3, 'C20.2': 2, 'C20.3': 4, 'C20.4': 4, 'C20.5': 2,
                'C20.6': 6, 'C20.7': 2}


def _defs(func):
    out = {}
    for sub in K.walk_no_nested(func.node):
        if isinstance(sub, ast.Assign) and len(sub.targets) == 1 and \
                isinstance(sub.targets[0], ast.Name):
            out.setdefault(sub.targets[0].id, []).append(sub.value)
    return out


class Res(object):
    """Identify values through locals: a name with exactly one definition
    in the function stands for that definition (recursively).  Used to
    compare what is computed, not where; orderings are separate
    obligations."""

    def __init__(self, func):
        self.defs = dict((k, v[0]) for k, v in _defs(func).items()
                         if len(set(N.txt(x) for x in v)) == 1)

    def __call__(self, expr, depth=0):
        if expr is None:
            return None
        env = dict((k, v) for k, v in self.defs.items()
                   if k not in N.mentions(v))
        return N.subst(expr, env)

    def txt(self, expr):
        return N.txt(self(expr)) if expr is not None else None

    def parse(self, text):
        return self(ast.parse(text, mode='eval').body)

    def lin(self, expr):
        try:
            return N.linear(self(expr))
        except Exception:                 # pylint: disable=broad-except
            return None


def _state_containers_fixed(ctx):
    """C20.6: the evaluation works on the containers it took out of the
    shared state at its start (``suspended = state['suspended']``): a
    suspension it records must be seen by the next evaluation, so the
    entries of the state dictionary are never re-bound after the dictionary
    was built - watchers and evaluation change them in place.  A watcher
    that replaces state['suspended'] by a filtered copy makes an evaluation
    in flight write its suspension into the discarded dictionary."""
    mod = ctx.index.module(MON)
    rebinds = []
    holders = 0

    def visit(node, depth):
        nonlocal holders
        for child in ast.iter_child_nodes(node):
            inner = depth + 1 if isinstance(
                child, (ast.FunctionDef, ast.AsyncFunctionDef)) else depth
            if isinstance(child, (ast.Assign, ast.AugAssign)):
                tgts = child.targets if isinstance(child, ast.Assign) \
                    else [child.target]
                for tgt in tgts:
                    if isinstance(tgt, ast.Subscript) and \
                            isinstance(tgt.value, ast.Name) and \
                            tgt.value.id == 'state' and \
                            isinstance(tgt.slice, ast.Constant) and \
                            tgt.slice.value in ('suspended', 'monitors'):
                        rebinds.append(child)
                if isinstance(child, ast.Assign) and isinstance(
                        child.value, ast.Subscript) and N.txt(
                            child.value) in ("state['suspended']",
                                             "state['monitors']"):
                    holders += 1
            visit(child, inner)
    visit(mod.tree, 0)
    ctx.require(holders >= 1, "a routine holding state['suspended'] / "
                "state['monitors'] in a local", rule='C20.6')
    ctx.ob('C20.6', mod.name, rebinds[0] if rebinds else None, not rebinds,
           "state['suspended'] and state['monitors'] are changed in place, "
           'never re-bound (an evaluation in flight holds the old object)',
           construct='state containers are not re-bound', file=mod.rel)


def check(ctx):
    _state_containers_fixed(ctx)
    index = ctx.index
    mod = index.module(MON)
    func = mod.functions.get('reevaluate')
    ctx.require(func is not None, 'appmonitor.reevaluate')
    nz = N.Normaliser()
    graph = ctx.cfg(func)
    facts = N.must_facts(graph, nz)
    defs = _defs(func)
    posts = K.nodes_calling(graph, lambda c: K.callee_text(c) ==
                            'restclient.post')
    creates = [(n, c) for n, c in posts if 'count=' in K.rtxt(func, c)]
    deletes = [(n, c) for n, c in posts if 'delete' in K.rtxt(func, c)]
    ctx.require(len(creates) == 1 and len(deletes) == 1,
                'create and delete requests of reevaluate', rule='C20.1')
    cnode, ccall = creates[0]
    dnode, dcall = deletes[0]
    # ---- C20.1 -----------------------------------------------------------
    res = Res(func)
    # the locals by what they are bound to, not by their spelling
    dloop0 = K.enclosing_for(graph, cnode)
    nvar, cvar = 'name', 'conf'
    if dloop0 is not None and isinstance(dloop0.ast.target, ast.Tuple) and \
            len(dloop0.ast.target.elts) == 2:
        nvar, cvar = [N.txt(e) for e in dloop0.ast.target.elts]

    def role(pred, default):
        for lname, vals in sorted(defs.items()):
            if any(pred(N.txt(v)) for v in vals):
                return lname
        return default
    tvar = role(lambda t: t == "%s['count']" % cvar, 'count')
    avar = role(lambda t: t == "%s['available']" % cvar, 'available')
    curvar = role(lambda t: t.startswith('len(') and
                  '.get(%s' % nvar in t, 'current_count')
    nowvar = role(lambda t: t == 'time.time()', 'now')
    svar = role(lambda t: t == "state['suspended']", 'suspended')
    cav = "%s['available']" % cvar
    url = K.rexpr(func, ccall.args[1])
    if isinstance(url, ast.Name):
        url = res(url)
    asked = None
    if isinstance(url, ast.Call) and K.is_meth(url, 'format') and \
            len(url.args) == 2:
        asked = N.txt(url.args[1])
    elif isinstance(url, ast.BinOp) and isinstance(url.op, ast.Mod) and \
            isinstance(url.right, ast.Tuple) and len(url.right.elts) == 2:
        asked = N.txt(url.right.elts[1])
    rawurl = ccall.args[1]
    if isinstance(rawurl, ast.Name) and len(defs.get(rawurl.id, [])) == 1:
        rawurl = defs[rawurl.id][0]
    if isinstance(rawurl, ast.Call) and K.is_meth(rawurl, 'format') and \
            len(rawurl.args) == 2:
        asked = N.txt(rawurl.args[1])
    elif isinstance(rawurl, ast.BinOp) and isinstance(rawurl.op, ast.Mod) \
            and isinstance(rawurl.right, ast.Tuple) and \
            len(rawurl.right.elts) == 2:
        asked = N.txt(rawurl.right.elts[1])
    ctx.ob('C20.1', func, cnode, asked is not None and
           len(defs.get(asked, [])) == 1,
           'the number requested is the variable %s' % asked,
           construct='requested count variable')
    decs = [n for n in graph.nodes if n.kind == 'stmt' and
            isinstance(n.ast, ast.AugAssign) and
            isinstance(n.ast.op, ast.Sub) and
            N.txt(n.ast.target) == cav]
    ctx.ob('C20.1', func, decs[0] if decs else None,
           len(decs) == 1 and N.txt(decs[0].ast.value) == asked,
           'the amount subtracted from the budget is that same variable',
           construct='budget decrement')
    # a granted request is charged whatever happens next: nothing that can
    # raise runs between the create that succeeded and the charge (the
    # evaluation swallows errors, so an alert or a lookup failing there
    # leaves instances created and the budget untouched)
    if decs:
        after = K.cut_reach(graph, cnode, cut_node=lambda n: n in decs,
                            follow_exc=False) if False else None
        between = []
        seen_b = set()
        todo_b = [e.dst for e in cnode.succ if e.kind != 'exc']
        while todo_b:
            cur = todo_b.pop()
            if cur in seen_b or cur in decs or cur is cnode:
                continue
            seen_b.add(cur)
            todo_b.extend(e.dst for e in cur.succ if e.kind != 'exc')
        # nodes from which the charge is still reachable: the stretch
        # between the create and the charge
        for cand in seen_b:
            if K.find_path(cand, decs, follow_exc=False) is None:
                continue
            risky = [c for c in C.node_calls(cand)
                     if not K.callee_text(c).startswith('_LOGGER.')]
            if risky:
                between.append((cand, risky[0]))
        between.sort(key=lambda x: getattr(x[1], 'lineno', 0))
        ctx.ob('C20.1', func, between[0][0] if between else decs[0],
               not between,
               'the charge follows the granted create with nothing in '
               'between that can raise' if not between else
               'between the create that succeeded and the charge runs %s: '
               'if it raises, the catch-all of the evaluation swallows the '
               'error, the instances stay created and the budget is not '
               'charged' % N.txt(between[0][1])[:60],
               construct='charge follows the granted create')
    adef = defs.get(asked, [None])[0] if asked else None
    ok = False
    detail = N.txt(adef) if adef is not None else None
    if isinstance(adef, ast.Call) and K.callee_text(adef) == 'int' and \
            isinstance(adef.args[0], ast.Call) and \
            K.callee_text(adef.args[0]) == 'min':
        ops = sorted(res.txt(a) for a in adef.args[0].args)
        ok = ops == sorted([res.txt(res.parse('%s - %s' % (tvar, curvar))),
                            res.txt(res.parse('math.floor(%s)' % avar))])
        if not ok and len(adef.args[0].args) == 2:
            # the head-room may be spelled in any linear form
            args = adef.args[0].args
            for need, avail in (args, args[::-1]):
                ok = ok or (
                    res.lin(need) == res.lin(res.parse(
                        '%s - %s' % (tvar, curvar))) and
                    res.txt(avail) == res.txt(res.parse(
                        'math.floor(%s)' % avar)))
    ctx.ob('C20.1', func, adef, ok,
           'allowed = int(min(needed, floor(available))): %s' % detail,
           construct='allowed definition')
    # what the decision reads: target and budget from the monitor state,
    # current from the scheduled listing of that application
    target = res.txt(res.parse(tvar))
    current = res.txt(res.parse(curvar))
    avdefs = [N.txt(v) for v in defs.get(avar, [])]
    ctx.ob('C20.1', func, None, cav in avdefs and
           target == "%s['count']" % cvar and 'len(' in (current or '') and
           '.get(%s, [])' % nvar in (current or '') and
           "state['scheduled']" in current,
           'available / count / current are read from the monitor state '
           'and the scheduled listing (count=%s current=%s)' % (target,
                                                              current),
           construct='inputs of the decision')
    # ---- C20.2 -----------------------------------------------------------
    pos = N.cmp_atom(ast.Name(id=asked or 'allowed'), '>',
                     ast.Constant(value=0))
    loop = K.enclosing_for(graph, cnode)
    ctx.ob('C20.2', func, cnode,
           K.guarded_by(graph, cnode,
                        lambda e: pos in nz.facts_of_edge(e), start=loop),
           'instances are requested only when allowed > 0')
    for node in decs:
        ok = K.guarded_by(graph, node, lambda e: e.src is cnode and
                          e.kind != 'exc', start=loop)
        ctx.ob('C20.2', func, node, ok,
               'the budget is decremented only after the request returned')
    # ---- C20.3 -----------------------------------------------------------
    incs = [n for n in graph.nodes if n.kind == 'stmt' and
            N.txt(getattr(n.ast, 'targets', [None])[0]
                  if isinstance(n.ast, ast.Assign) else
                  getattr(n.ast, 'target', None)).endswith("['available']")
            and n not in decs]
    ctx.require(incs, 'refill of the budget', rule='C20.3')
    for node in incs:
        # the refill loop has its own (name, record) pair
        iloop = K.enclosing_for(graph, node)
        icv = cvar
        if iloop is not None and isinstance(iloop.ast.target, ast.Tuple) \
                and len(iloop.ast.target.elts) == 2:
            icv = N.txt(iloop.ast.target.elts[1])
        val = res(node.ast.value)
        ok = isinstance(node.ast, ast.Assign) and isinstance(
            val, ast.Call) and K.callee_text(val) == 'min' and \
            len(val.args) == 2
        sums = []
        caps = []
        deltas = []
        if ok:
            for arg in val.args:
                if isinstance(arg, ast.BinOp) and isinstance(arg.op,
                                                             ast.Add):
                    sides = [arg.left, arg.right]
                    for cur, other in (sides, sides[::-1]):
                        if N.txt(cur) == "%s['available']" % icv:
                            sums.append(arg)
                            deltas.append(other)
                else:
                    try:
                        if N.linear(arg) == {"%s['count']" % icv: 2}:
                            caps.append(arg)
                    except Exception:     # pylint: disable=broad-except
                        pass
        ctx.ob('C20.3', func, node, ok and len(sums) == 1 and
               len(caps) == 1,
               'refill is min(available + delta, cap): %s' % N.txt(val),
               construct='budget refill')
        ctx.ob('C20.3', func, node, len(caps) == 1,
               'cap = 2 * count: %s' % (N.txt(caps[0]) if caps else None),
               construct='budget cap')
        delta = deltas[0] if len(deltas) == 1 else None
        okd = False
        if isinstance(delta, ast.BinOp) and isinstance(delta.op, ast.Mult):
            sides = [delta.left, delta.right]
            for rate, span in (sides, sides[::-1]):
                try:
                    okd = okd or (
                        N.txt(rate) == "%s['rate']" % icv and
                        N.linear(span) == N.linear(res.parse(
                            "%s - %s['last_update']" % (nowvar, icv))))
                except Exception:         # pylint: disable=broad-except
                    pass
        ctx.ob('C20.3', func, node, okd,
               'delta = rate * (now - last_update): %s' % (
                   N.txt(delta) if delta is not None else None),
               construct='budget delta')
    interval = try_fold(index, mod, mod.consts.get('_INTERVAL'))
    ctx.ob('C20.3', MON, None, interval == 3600.0,
           'the refill interval is one hour (%s s)' % interval,
           construct='_INTERVAL', file=mod.rel)
    init = None
    for f in mod.live_functions():
        for sub in K.walk_no_nested(f.node):
            if isinstance(sub, ast.Dict) and any(
                    isinstance(k, ast.Constant) and k.value == 'rate'
                    for k in sub.keys):
                init = (f, sub)
    ctx.require(init is not None, 'initial monitor state', rule='C20.3')
    ires = Res(init[0])
    fields = {k.value: ires(v)
              for k, v in zip(init[1].keys, init[1].values)}
    # the target as stored in the new record (whatever local holds it)
    target_txt = N.txt(fields.get('count')) if fields.get('count') \
        is not None else ires.txt(ires.parse('count'))

    def factor(expr, over=None):
        """coefficient c of c * count (/ over)."""
        if over is not None:
            if not (isinstance(expr, ast.BinOp) and isinstance(
                    expr.op, ast.Div) and N.txt(expr.right) == over):
                return None
            expr = expr.left
        try:
            lin = N.linear(expr)
        except Exception:                 # pylint: disable=broad-except
            return None
        if list(lin) == [target_txt]:
            return float(lin[target_txt])
        return None
    ctx.ob('C20.3', init[0], init[1],
           factor(fields.get('available')) == 2.0 and
           factor(fields.get('rate'), '_INTERVAL') == 2.0 and
           "['count']" in (target_txt or ''),
           'initial budget = 2 * count and rate = 2 * count / interval '
           '(twice the target per hour): available=%s rate=%s' % (
               N.txt(fields.get('available')), N.txt(fields.get('rate'))),
           construct='initial budget and rate')
    # ---- C20.4 -----------------------------------------------------------
    # scaling down is not rate limited: the delete request of a monitor that
    # is not suspended depends on the two counts (and the policy) alone - a
    # monitor whose target is 0 has rate 0 and budget 0 and still has to
    # delete its last instances
    budget = set(name for name, vals in defs.items() if any(
        "['rate']" in N.txt(v) or "['available']" in N.txt(v)
        for v in vals))
    rated = [f for f in N.raw_only(facts[dnode]) if
             (f.mentions & budget) or "['rate']" in N.show(f) or
             "['available']" in N.show(f)]
    ctx.ob('C20.4', func, dnode, not rated,
           'the delete request does not depend on the rate budget '
           '(conditions on it: %s)' % sorted(N.show(f) for f in rated),
           construct='scale-down not rate limited')
    surplus = {'current_count': 1, 'count': -1}
    payload = K.kwarg(dcall, 'payload')
    pvars = [n.id for n in ast.walk(payload) if isinstance(n, ast.Name)
             and n.id not in ('dict', 'list', 'sorted', 'set')] \
        if payload is not None else []
    ctx.ob('C20.4', func, dnode, len(pvars) == 1 and
           "instances" in N.txt(payload),
           'the delete request carries exactly that slice',
           construct='delete payload')
    evar = pvars[0] if pvars else 'extra'
    extra_defs = [n for n in graph.nodes if n.kind == 'stmt' and
                  isinstance(n.ast, ast.Assign) and
                  N.txt(n.ast.targets[0]) == evar and
                  isinstance(n.ast.value, ast.Subscript)]
    ctx.require(len(extra_defs) >= 2, 'scale-down slices', rule='C20.4')

    def policy_of(atom):
        if atom.key[0] != 'cmp' or atom.key[1] != '==' or \
                len(atom.key[2]) != 2:
            return None
        terms = [t for t, _c in atom.key[2]]
        # the policy local: bound to <record>.get('policy') (possibly
        # defaulted afterwards)
        names = [t for t in terms if t.endswith('policy') or any(
            ".get('policy')" in N.txt(v) for v in defs.get(t, []))]
        lits = [t for t in terms if t.startswith("'")]
        if len(names) == 1 and len(lits) == 1:
            return lits[0].strip("'")
        return None
    def is_policy_name(text):
        return text.endswith('policy') or any(
            ".get('policy')" in N.txt(v) for v in defs.get(text, []))

    def policy_domain(atoms):
        """Values the policy can still have under the facts: equality,
        inequality and membership tests against literals narrow
        {fifo, lifo, <anything else>}."""
        dom = {'fifo', 'lifo', '*'}
        for atom in atoms:
            key = atom.key
            if key[0] == 'cmp' and key[1] in ('==', '!=') and \
                    len(key[2]) == 2:
                terms = [t for t, _c in key[2]]
                names = [t for t in terms if is_policy_name(t)]
                lits = [t.strip("'") for t in terms if t.startswith("'")]
                if len(names) == 1 and len(lits) == 1:
                    if key[1] == '==':
                        dom &= {lits[0]}
                    else:
                        dom -= {lits[0]}
            elif key[0] == 'in' and is_policy_name(key[1]):
                try:
                    vals = ast.literal_eval(key[2])
                except (ValueError, SyntaxError):
                    continue
                vals = set(v for v in vals if isinstance(v, str))
                if key[3]:
                    dom &= vals
                else:
                    dom -= vals
        return dom
    seen = set()
    for node in extra_defs:
        sl = node.ast.value.slice
        dom = policy_domain(facts[node])
        policy = sorted(dom)[0] if len(dom) == 1 else None
        ok = False

        lin = res.lin
        surplus = res.lin(res.parse('%s - %s' % (curvar, tvar)))
        if isinstance(sl, ast.Slice) and sl.step is None:
            if policy == 'fifo':
                ok = sl.lower is None and sl.upper is not None and \
                    lin(sl.upper) == surplus
            elif policy == 'lifo':
                ok = sl.upper is None and sl.lower is not None and \
                    lin(sl.lower) == {k: -v for k, v in surplus.items()}
        seen.add(policy)
        ctx.ob('C20.4', func, node, ok and
               res.txt(node.ast.value.value).endswith(
                   "state['scheduled'])[%s]" % nvar),
               "policy %r deletes the %s of length current - target: %s" % (
                   policy, 'prefix (oldest)' if policy == 'fifo' else
                   'suffix (newest)', N.txt(node.ast.value)),
               construct='scale-down slice [%s]' % policy)
    ctx.ob('C20.4', func, None, seen == {'fifo', 'lifo'},
           'both policies are handled: %s' % sorted(str(s) for s in seen),
           construct='scale-down policies')
    # unknown policy: no request (flags / None results are followed)
    dloop = K.enclosing_for(graph, dnode)
    unknown = K.find_path_cp(
        graph, dloop, [dnode], cut_node=lambda n: n is dloop,
        cut_edge=lambda e: e.kind == 'exc' or
        '*' not in policy_domain(nz.facts_of_edge(e)),
        follow_exc=False) if dloop is not None else []
    ctx.ob('C20.4', func, dnode, unknown is None,
           'an unknown policy issues no delete request',
           path=K.describe(unknown) if unknown else None,
           construct='unknown policy')
    sw = [f for f in mod.live_functions() if f.name == '_scheduled_watch']
    ctx.require(sw, '_scheduled_watch')
    groupbys = [c for c in K.calls(sw[0].node)
                if K.callee_text(c) == 'itertools.groupby' and c.args]
    ctx.ob('C20.4', sw[0], None,
           bool(groupbys) and all(
               K.rtxt(sw[0], c.args[0]) == 'sorted(%s)' % sw[0].params()[0]
               for c in groupbys),
           'per-application lists are built from an ascending sort',
           construct='instance list order')
    # ---- C20.5 -----------------------------------------------------------
    more = N.cmp_atom(ast.Name(id=tvar), '>', ast.Name(id=curvar))
    less = N.cmp_atom(ast.Name(id=tvar), '<', ast.Name(id=curvar))
    ctx.ob('C20.5', func, cnode, more in facts[cnode],
           'instances are created only when target > current')
    ctx.ob('C20.5', func, dnode, less in facts[dnode],
           'instances are deleted only when target < current')
    ctx.ob('C20.5', func, None,
           K.enclosing_for(graph, cnode) is K.enclosing_for(graph, dnode)
           and dnode not in C.reach_after(
               cnode, blocked=[K.enclosing_for(graph, cnode)],
               edge_ok=None) and
           cnode not in C.reach_after(
               dnode, blocked=[K.enclosing_for(graph, dnode)]),
           'within one evaluation of a monitor at most one of the two '
           'requests is issued', construct='create xor delete')
    # every monitor gets its evaluation: one that is suspended, on target or
    # rate limited is skipped - it does not end the pass for the others
    for mloop in [n for n in graph.nodes if n.kind == 'for' and
                  not K.enclosing_for(graph, n) and
                  isinstance(n.ast.target, ast.Tuple)]:
        K.exhaustive_loop(ctx, 'C20.5', func, mloop,
                          'pass over the monitors (%s)' %
                          N.txt(mloop.ast.iter)[:40])
    # ---- C20.6 -----------------------------------------------------------
    for node, what in ((cnode, 'create'), (dnode, 'delete')):
        lp = K.enclosing_for(graph, node)
        ok = K.guarded_by(graph, node, lambda e: any(
            a.key[0] == 'cmp' and a.key[1] in ('<=',) and
            sorted(t for t, _c in a.key[2]) == sorted(
                [nowvar, '%s.get(%s, 0)' % (svar, nvar)]) and
            dict(a.key[2])[nowvar] < 0
            for a in nz.facts_of_edge(e)), start=lp)
        ctx.ob('C20.6', func, node, ok,
               'the %s request is issued only for a monitor that is not '
               'suspended' % what)
    handled = {}
    for sub in K.walk_no_nested(func.node):
        if isinstance(sub, ast.Try) and any(
                isinstance(s, ast.Call) and s is ccall
                for b in sub.body for s in ast.walk(b)):
            for hdl in sub.handlers:
                name = N.txt(hdl.type) if hdl.type else 'bare'
                sets = any(isinstance(s, ast.Assign) and
                           N.txt(s.targets[0]) == '%s[%s]' % (svar, nvar)
                           and '_DELAY_INTERVAL' in K.rtxt(func, s.value)
                           for s in K.walk_no_nested(hdl))
                # ... or through a local closure called with the monitor's
                # name
                for inner in ast.walk(hdl):
                    if isinstance(inner, ast.Call) and \
                            isinstance(inner.func, ast.Name) and \
                            inner.func.id in func.nested() and inner.args \
                            and N.txt(inner.args[0]) == nvar:
                        helper = func.nested()[inner.func.id]
                        hparams = helper.params()
                        body = K._fn_body(helper.raw)
                        henv = {}
                        for st in body:
                            if isinstance(st, ast.Assign) and \
                                    isinstance(st.targets[0], ast.Name):
                                henv[st.targets[0].id] = st.value
                        if hparams and any(
                                isinstance(s, ast.Assign) and
                                N.txt(s.targets[0]) ==
                                '%s[%s]' % (svar, hparams[0]) and
                                '_DELAY_INTERVAL' in N.txt(
                                    N.subst(s.value, henv))
                                for s in body):
                            sets = True
                if not sets:
                    # ... or further down: the handler leaves a reason in a
                    # local and the statements after the try suspend the
                    # monitor whenever a reason was left - no path from the
                    # handler to the end of the iteration misses the store
                    hnodes = [n for n in graph.nodes
                              if n.kind == 'handler' and n.ast is hdl]

                    def suspends(node):
                        return node.kind == 'stmt' and isinstance(
                            node.ast, ast.Assign) and N.txt(
                                node.ast.targets[0]) == '%s[%s]' % (
                                    svar, nvar) and '_DELAY_INTERVAL' in \
                            K.rtxt(func, node.ast.value)
                    if hnodes:
                        lp = K.enclosing_for(graph, hnodes[0])
                        goals = [graph.exit] + ([lp] if lp else [])
                        sets = K.const_path(graph, hnodes[0], goals,
                                            cut_node=suspends) is None
                handled[name] = sets
    specific = {k: v for k, v in handled.items()
                if k not in ('Exception', 'bare')}
    ctx.ob('C20.6', func, None, len(specific) >= 3 and
           all(specific.values()),
           'each handled failure class suspends the monitor: %s' %
           specific, construct='failure handlers suspend')
    watch = [f for f in mod.live_functions()
             if f.name == '_appmonitors_watch']
    ctx.require(watch, '_appmonitors_watch')
    wf = watch[0]
    wgraph = ctx.cfg(wf)

    def known(expr):
        # the keys of the shared state's monitor table (the state local of
        # the enclosing routine, whatever it is called)
        return re.match(r"^(six\.viewkeys\(\w+\['monitors'\]\)|"
                        r"\w+\['monitors'\]\.keys\(\)|"
                        r"set\(\w+\['monitors'\]\)|\w+\['monitors'\])$",
                        K.rtxt(wf, expr)) is not None

    def listed(expr):
        par = wf.params()[0]
        return N.txt(expr) in (par, 'set(%s)' % par)
    sx = K.FlowSetExpr(wf, wgraph, {'known': known, 'listed': listed})
    for loop in [n for n in wgraph.nodes if n.kind == 'for']:
        body = K.loop_body_nodes(loop)
        pops = any(K.is_meth(c, 'pop') for n in body
                   for c in C.node_calls(n))
        watches = any(isinstance(c.func, ast.Name) and
                      c.func.id == '_watch_monitor' for n in body
                      for c in C.node_calls(n))
        tabs = sx.tables(loop.ast.iter, loop)
        tab = tabs[0] if tabs else None
        if pops or watches:
            skip = K.find_path(wgraph.entry, [wgraph.exit],
                               cut_node=lambda n, lp=loop: n is lp,
                               follow_exc=False)
            ctx.ob('C20.6', wf, loop, skip is None,
                   'every notification reaches the %s pass (no early '
                   'return before it)' % ('removal' if pops else 'watch'),
                   path=K.describe(skip) if skip else None,
                   construct='monitors %s pass reached' %
                   ('removal' if pops else 'watch'))
        if pops:
            want = sx.expect(lambda e: e['known'] and not e['listed'])
            ctx.ob('C20.6', wf, loop, tab == want,
                   'monitors removed: exactly known - listed (found %s)' %
                   K.show_table(tab), construct='monitors removed')
        if watches:
            want = sx.expect(lambda e: e['listed'] and not e['known'])
            ctx.ob('C20.6', wf, loop, tab == want,
                   'monitors watched: exactly listed - known (found %s)' %
                   K.show_table(tab), construct='monitors added')
    dw = [f for f in mod.live_functions() if f.name == '_monitor_data_watch']
    ctx.require(dw, '_monitor_data_watch')
    # on the outcome "the event is a deletion" (and on "no stat": the node
    # is gone) the monitor record is not written
    dgraph = ctx.cfg(dw[0])
    dnz = N.Normaliser()
    writes = [n for n in dgraph.nodes if n.kind == 'stmt' and
              isinstance(n.ast, ast.Assign) and
              "['monitors']" in N.txt(n.ast.targets[0])]
    statp = dw[0].params()[1]
    eventp = dw[0].params()[2] if len(dw[0].params()) > 2 else None

    def stat_present(atom):
        key = atom.key
        return key[0] == 'is' and not key[3] and key[2] == 'None' and \
            key[1] == statp

    def not_a_deletion(atom):
        key = atom.key
        if key[0] == 'cmp' and key[1] == '!=' and \
                "'DELETED'" in [t for t, _c in key[2]]:
            return True
        return key[0] == 'is' and key[3] and key[2] == 'None' and \
            key[1] == eventp
    # every path to the write has established both (tests taken apart by
    # the CFG; a named boolean gathering the two cases is followed)
    leak = K.unestablished_path(dgraph, writes, {
        'stat present': stat_present, 'not a deletion': not_a_deletion}) \
        if writes else None
    ok = bool(writes) and leak is None
    ctx.ob('C20.6', dw[0], None, ok,
           'a deleted monitor stops being reconfigured',
           construct='deleted monitor')
    # ---- C20.7 -----------------------------------------------------------
    inst = index.module(INST)
    creates_ = [n for n in ast.walk(inst.tree)
                if isinstance(n, ast.FunctionDef) and n.name == 'create']
    ctx.require(creates_, 'instance API create', rule='C20.7')
    from ..index import FuncInfo
    cfunc = FuncInfo(inst, None, creates_[0])
    cfunc.qualname = 'instance.create'
    cgraph = ctx.cfg(cfunc)
    cfacts = N.must_facts(cgraph, nz)
    raises = [n for n in cgraph.nodes if n.kind == 'raise_stmt' and
              isinstance(n.ast, ast.Raise) and
              'QuotaExceededError' in N.txt(n.ast)]
    ctx.require(len(raises) >= 2, 'quota checks of the instance API',
        rule='C20.7')
    quotas = set()
    for node in raises:
        ok = False
        for fact in cfacts[node]:
            if fact.key[0] == 'cmp' and fact.key[1] == '<':
                lin = dict(fact.key[2])
                q = [t for t in lin if t.endswith('_QUOTA')]
                if q and lin.get('count') == -lin[q[0]] and \
                        len(lin) == 3 and lin[q[0]] > 0:
                    ok = True
                    quotas.add(q[0])
        ctx.ob('C20.7', cfunc, node, ok,
               'quota exceeded exactly when existing + count > quota')
    sched = [n for n, c in K.nodes_calling(
        cgraph, lambda c: 'create_apps' in N.txt(c.func))]
    tests = [n for n in cgraph.nodes if n.kind == 'test' and
             '_QUOTA' in K.test_text(cfunc, n)]
    ok = len(quotas) == 2 and bool(sched) and all(
        K.guarded_by(cgraph, s, lambda e, t=t: e.src is t and
                     e.kind == 'false') for s in sched for t in tests)
    ctx.ob('C20.7', cfunc, sched[0] if sched else None, ok,
           'both quota tests precede the scheduling of the new instances',
           construct='quota tests dominate scheduling')
    # AGREE: the per-proid figure is looked up under the key the master
    # publishes it under - the instance name up to its first dot, on both
    # sides (a key derived differently reads 0 and the quota never binds)
    master = index.get_class(K.MASTER, 'Master')
    agg = master.methods.get('_calculate_aggregate')
    ctx.require(agg is not None, 'Master._calculate_aggregate')

    def prefix_key(func, expr):
        """expr is <name>[:<name>.find('.')] for a plain name."""
        expr = K.rexpr(func, expr)
        return isinstance(expr, ast.Subscript) and \
            isinstance(expr.value, ast.Name) and \
            isinstance(expr.slice, ast.Slice) and \
            expr.slice.lower is None and expr.slice.step is None and \
            N.txt(expr.slice.upper) == "%s.find('.')" % expr.value.id
    wkeys = [sub.slice for sub in K.walk_no_nested(agg.node)
             if isinstance(sub, ast.Subscript) and
             isinstance(sub.ctx, ast.Store)]
    for sub in K.walk_no_nested(agg.node):
        if isinstance(sub, ast.AugAssign) and isinstance(sub.target,
                                                         ast.Subscript):
            wkeys.append(sub.target.slice)
    rkeys = [c.args[0] for c in K.calls(cfunc.node)
             if K.is_meth(c, 'get') and c.args and
             'stats' in (K.recv_text(c) or '')]
    ctx.ob('C20.7', cfunc, rkeys[0] if rkeys else None,
           bool(wkeys) and bool(rkeys) and
           all(prefix_key(agg, k) for k in wkeys) and
           all(prefix_key(cfunc, k) for k in rkeys),
           'the per-proid count is published and looked up under the same '
           "key, the name up to its first '.': written %s, read %s" % (
               [N.txt(k) for k in wkeys], [N.txt(k) for k in rkeys]),
           construct='proid key agreement')
    # the rate budget of a monitor is rebuilt only when its node really
    # changed: the data watch of the monitor loop invokes its callback on a
    # new version (or the first time), not on a mere reconnect
    zw = index.module('treadmill.zkwatchers', required=False)
    if zw is not None and 'ExistingDataWatch' in zw.classes:
        gd = zw.classes['ExistingDataWatch'].methods.get('_get_data')
        ctx.require(gd is not None, 'ExistingDataWatch._get_data')
        ggraph = ctx.cfg(gd)
        gnz = N.Normaliser()
        fires = [n for n, c in K.nodes_calling(
            ggraph, lambda c: K.is_meth(c, '_log_func_exception') and
            c.args and N.txt(c.args[0]) not in ('None',))]
        ctx.require(fires, 'callback invocation with data in _get_data',
            rule='C20.3')
        for node in fires:
            okv = K.guarded_by(ggraph, node, lambda e: any(
                a.key[0] == 'cmp' and a.key[1] == '!=' and
                len(a.key[2]) == 2 and
                'self._version' in [t for t, _c in a.key[2]] and
                any(t.endswith('.mzxid') for t, _c in a.key[2])
                for a in gnz.facts_of_edge(e)))
            ctx.ob('C20.3', gd, node, okv,
                   'the monitor callback runs only when the node version '
                   'changed (a reconnect alone does not hand out a fresh '
                   'budget)', construct='data watch fires on change')


    _monitor_record(ctx)
    _waited_map(ctx)


def _waited_map(ctx):
    """C20.1: the statements between a granted create request and the charge
    of its tokens look the instance up in the map of waiting monitors; an
    error there is swallowed by the catch-all of the evaluation and the
    request is never charged.  The map handed to the first evaluation is
    therefore a mapping on every path: the stored value or an empty dict
    (`X or {}`), also when the node exists but holds nothing."""
    mod = ctx.index.module(MON)
    run = mod.functions.get('_run_sync')
    ctx.require(run is not None, 'appmonitor._run_sync', rule='C20.1')
    calls = [c for c in K.calls(run.node)
             if isinstance(c.func, ast.Name) and c.func.id == 'reevaluate'
             and len(c.args) >= 5 and isinstance(c.args[4], ast.Name)]
    ctx.require(calls, 'the evaluation call of _run_sync', rule='C20.1',
                func=run)
    name = calls[0].args[4].id

    def mapping(expr, depth=0):
        if isinstance(expr, ast.Dict):
            return True
        if isinstance(expr, ast.BoolOp) and isinstance(expr.op, ast.Or):
            return mapping(expr.values[-1], depth)
        if isinstance(expr, ast.Call) and depth < 2:
            if isinstance(expr.func, ast.Name) and \
                    expr.func.id == 'reevaluate':
                return True         # the map the last evaluation returned
            callee = ctx.index.resolve_call(run, expr)
            if callee is not None:
                whole = K.expr_of_function(callee.raw)
                return whole is not None and mapping(whole, depth + 1)
        return False
    defs = [sub for sub in K.walk_no_nested(run.node)
            if isinstance(sub, ast.Assign) and len(sub.targets) == 1 and
            N.txt(sub.targets[0]) == name]
    ctx.require(defs, 'definition of the waited map in _run_sync',
                rule='C20.1', func=run)
    for sub in defs:
        ctx.ob('C20.1', run, sub, mapping(sub.value),
               'the map of waiting monitors is a mapping on every path '
               '(%s)' % N.txt(sub.value)[:70],
               construct='waited map is never None')


def _monitor_record(ctx):
    """What the monitor acts on is what was configured and asked for.
    C20.4: updating a monitor changes the stored count / policy only when a
    new one is given - an update of the count alone leaves the scale-down
    policy as configured.  C20.2: a request for N instances creates N
    sequence nodes, each by one direct create - a sequence create that is
    retried after a lost reply leaves a second instance behind."""
    mod = ctx.index.module('treadmill.scheduler.masterapi')
    upd = mod.functions.get('update_appmonitor') if mod else None
    ctx.require(upd is not None, 'masterapi.update_appmonitor',
                rule='C20.4')
    graph = ctx.cfg(upd)
    nz = N.Normaliser()
    facts = N.must_facts(graph, nz)
    params = upd.params()
    seen = set()
    for node in graph.nodes:
        if not (node.kind == 'stmt' and isinstance(node.ast, ast.Assign) and
                len(node.ast.targets) == 1 and
                isinstance(node.ast.targets[0], ast.Subscript) and
                isinstance(node.ast.targets[0].slice, ast.Constant)):
            continue
        key = node.ast.targets[0].slice.value
        if key not in ('count', 'policy'):
            continue
        seen.add(key)
        val = node.ast.value
        given = isinstance(val, ast.Name) and val.id in params and any(
            f.key == ('is', val.id, 'None', False) for f in facts[node])
        ctx.ob('C20.4', upd, node, given,
               'the stored %s of a monitor is replaced only by a value that '
               'was given (%s)' % (key, N.txt(node.ast)),
               construct='monitor %s kept unless given' % key)
    ctx.require(seen == {'count', 'policy'}, 'stores of count and policy in '
                'update_appmonitor (found %s)' % sorted(seen), rule='C20.4',
                func=upd)
    crt = mod.functions.get('create_apps')
    ctx.require(crt is not None, 'masterapi.create_apps', rule='C20.2')
    seq = [c for c in K.calls(crt.node) if any(
        k.arg == 'sequence' and isinstance(k.value, ast.Constant) and
        k.value.value is True for k in c.keywords)]
    ctx.require(seq, 'the sequence create of create_apps', rule='C20.2',
                func=crt)
    for call in seq:
        direct = K.callee_text(call).split('.')[-1] in ('put', 'create')
        ctx.ob('C20.2', crt, call, direct,
               'an instance node is created by one direct sequence create '
               '(%s)' % K.callee_text(call) if direct else
               'the sequence create goes through %s: a create whose reply '
               'was lost is repeated and leaves a second instance' %
               K.callee_text(call),
               construct='sequence create not retried')
    cgraph = ctx.cfg(crt)
    for node, call in K.nodes_calling(cgraph, lambda c: c in seq):
        loop = K.enclosing_for(cgraph, node)
        dom = N.txt(loop.ast.iter) if loop is not None else ''
        ctx.ob('C20.2', crt, node, dom in (
            'range(0, %s)' % crt.params()[3], 'range(%s)' % crt.params()[3]),
               'one create per requested instance (%s)' % dom,
               construct='creates per request')


_AM = 'lib/python/treadmill/sproc/appmonitor.py'
_IN = 'lib/python/treadmill/api/instance.py'

MUTANTS = [
    ('revert-F33-charge-after-the-alert', [(_AM, """                # The request went through: charge it whatever happens next.
                conf['available'] -= allowed

                if name in last_waited:
                    # this means app jump out of wait, need to clear it from zk
                    alert_f(name, 'Monitor active again', status='clear')
                    modified = True
""", """
                if name in last_waited:
                    # this means app jump out of wait, need to clear it from zk
                    alert_f(name, 'Monitor active again', status='clear')
                    modified = True

                conf['available'] -= allowed
""")], 'C20.1'),
    ('allowed-ignores-budget', [(_AM, """            allowed = int(min(needed, math.floor(available)))
""", """            allowed = int(needed)
""")], 'C20.1'),
    ('allowed-ceil', [(_AM, """            allowed = int(min(needed, math.floor(available)))
""", """            allowed = int(min(needed, math.ceil(available)))
""")], 'C20.1'),
    ('request-needed-not-allowed', [(_AM, """                    '/instance/{}?count={}'.format(name, allowed),
""", """                    '/instance/{}?count={}'.format(name, needed),
""")], 'C20.1'),
    ('decrement-needed', [(_AM, """                conf['available'] -= allowed
""", """                conf['available'] -= needed
""")], 'C20.1'),
    ('request-when-zero', [(_AM, """            if allowed <= 0:
""", """            if allowed < 0:
""")], 'C20.2'),
    ('decrement-before-request', [(_AM, """            try:
                # scheduled, remove app from waited list
                _scheduled = restclient.post(""", """            conf['available'] -= allowed
            try:
                # scheduled, remove app from waited list
                _scheduled = restclient.post("""), (_AM, """                # The request went through: charge it whatever happens next.
                conf['available'] -= allowed

""", """
""")], 'C20.2'),
    ('refill-cap-on-increment', [(_AM, """            conf['available'] = min(available + delta, max_value)
""", """            conf['available'] = available + min(delta, max_value)
""")], 'C20.3'),
    ('cap-three-times', [(_AM, """        max_value = conf['count'] * 2
""", """        max_value = conf['count'] * 3
""")], 'C20.3'),
    ('interval-half-hour', [(_AM, """_INTERVAL = float(60 * 60)
""", """_INTERVAL = float(30 * 60)
""")], 'C20.3'),
    ('initial-budget-triple', [(_AM, """                'available': 2.0 * count,
""", """                'available': 3.0 * count,
""")], 'C20.3'),
    ('fifo-keeps-newest-count', [(_AM, """                extra = grouped[name][:current_count - count]
""", """                extra = grouped[name][:-count]
""")], 'C20.4'),
    ('lifo-deletes-oldest', [(_AM, """                extra = grouped[name][count - current_count:]
""", """                extra = grouped[name][:current_count - count]
""")], 'C20.4'),
    ('unknown-policy-deletes-all', [(_AM, """                _LOGGER.warning('Invalid scale policy: %s', policy)
                continue
""", """                _LOGGER.warning('Invalid scale policy: %s', policy)
                extra = grouped[name]
""")], 'C20.4'),
    ('instances-unsorted', [(_AM, """        scheduled = sorted(children)
""", """        scheduled = list(children)
""")], 'C20.4'),
    ('delete-also-when-equal', [(_AM, """        elif count < current_count:
            extra = []""", """        elif count <= current_count + 1:
            extra = []""")], 'C20.5'),
    ('suspended-still-creates', [(_AM, """    for name, conf in six.iteritems(monitors):

        if suspended.get(name, 0) > now:
            _LOGGER.debug('Monitor is suspended for: %s.', name)
            continue

        count = conf['count']""", """    for name, conf in six.iteritems(monitors):

        count = conf['count']""")], 'C20.6'),
    ('bad-request-not-suspended', [(_AM, """                _LOGGER.exception('Unable to start: %s', name)
                suspended[name] = now + _DELAY_INTERVAL
""", """                _LOGGER.exception('Unable to start: %s', name)
""")], 'C20.6'),
    ('monitors-removed-reversed', [(_AM, """        extra = six.viewkeys(state['monitors']) - monitors
        for name in extra:
            _LOGGER.info('Removing extra monitor: %r', name)""", """        extra = monitors - six.viewkeys(state['monitors'])
        for name in extra:
            _LOGGER.info('Removing extra monitor: %r', name)""")], 'C20.6'),
    ('quota-ignores-count', [(_IN, """            if total_apps + count > _TOTAL_SCHEDULED_QUOTA:
""", """            if total_apps > _TOTAL_SCHEDULED_QUOTA:
""")], 'C20.7'),
]

REFACTORS = [
    ('allowed-min-swapped', [(_AM, """            allowed = int(min(needed, math.floor(available)))
""", """            allowed = int(min(math.floor(available), needed))
""")]),
    ('refill-min-swapped', [(_AM, """            conf['available'] = min(available + delta, max_value)
""", """            conf['available'] = min(max_value, delta + available)
""")]),
    ('cap-two-first', [(_AM, """        max_value = conf['count'] * 2
""", """        max_value = 2 * conf['count']
""")]),
    ('fifo-slice-parenthesised', [(_AM, """                extra = grouped[name][:current_count - count]
""", """                extra = grouped[name][:(current_count - count)]
""")]),
    ('lifo-negated', [(_AM, """                extra = grouped[name][count - current_count:]
""", """                extra = grouped[name][-(current_count - count):]
""")]),
    ('zero-test-swapped', [(_AM, """            if allowed <= 0:
""", """            if 0 >= allowed:
""")]),
]
