"""C01 - no oversubscription; one server per instance; unit spellings."""

import ast

from .. import cfg as C
from .. import norm as N
from ..index import dotted_text
from . import common as K
from .sched_model import PlacementLoop

EXPLANATION = """
C01.1 GUARD: the admission predicate (Node method comparing the demand with
free_capacity) returns a truthy value only on paths where
ALL(demand <= free_capacity) (or <) holds - the quantifier and direction are
read from the repo's own vector helpers, whose bodies are interpreted - and
the leaf placement (Server method storing into self.apps) stores only after
the predicate returned true.  C01.2 PAIR: on every path of Server.put that
returns True the four effects (free_capacity -= demand, apps[name] = app,
app.server = self.name, increment_affinity) happen exactly once, on paths
returning False not at all; Server.remove performs the four inverses exactly
once.  C01.3 OWNER: free_capacity/init_capacity/apps of a server and
Application.server are written only by the owning routines.  C01.4
TYPESTATE: every put/restore of the instance in the placement loop happens
in state 'not placed'.  C01.5 AGREE: every capacity/demand/reservation
vector is produced by loader.resources, which maps each dimension to one
parser.  C01.6: Server.restore places through self.put only, with the lease
neutralised and re-instated on every exit.  C01.7: unit constants (1024).
C01.8: a server object leaves the model only after its placements were
withdrawn.  C01.9 (shared with C09.3/C09.4): the stored server-to-instance
view follows the model - Cell.schedule() takes its before-snapshot before
and its after-snapshot after every routine that may change a placement, and
placement changes outside a cycle rewrite or delete the record.
Added by the seeding rounds - C01.8: a server object leaves the model only
after remove_all() and remove_node(); C01.9 (shared with C09/C10):
Cell.schedule() takes its before-snapshot before and its after-snapshot after
every routine that may change a placement, the duplicate repair of
restore_placements treats every server of a duplicated instance alike, no
record delete is reachable after a record write of one publication, and
restore_placement reports every instance it put back. Fourth round: C01.3 the
one place outside Server.remove that clears app.server does so only for a
server missing from the cell's map; C01.9 also covers the reload of a replaced
server (shared with C09.4).
Sweep: C01.8 remove_all takes every instance off through Server.remove (capacity and affinity counters follow).
Fifth round: C01.5 a server whose record is read again keeps its old object only when the fresh one is_same under the same parent (otherwise it is replaced), and is_same compares labels and declared capacity; C01.9 the servers of the start-up reconciliation are the members of the cell.
Sixth round: C01.3 the demand of an instance is set by its constructor only (no in-place update of a placed instance); C01.5 is_same requires the declared capacity to be equal in every dimension.
Seventh round: C01.7 the size suffixes B K M G T P E Z Y stand for successive powers of the base (the literal table is folded by the analyser); C01.5 the dimension -> parser table of loader.resources is read from a comprehension or from the loop appending to the result.
Eighth round: C01.3 an instance leaves the cell's table only after it was taken off its server, whatever its marks say (shared with C05.2); C01.9 the self check judges each recorded copy against the model as recorded (shared with C09.4). C01.3 also reports the one writer of the placement attribute outside Server.put / Server.remove - the validation pass clearing the server of an instance whose server left the cell - as finding F18 (listed in known_findings.json): the detached server object keeps listing the instance.
Ninth round: C01.3 the free-capacity vector of a bucket is a value of its own - assigned the result of maximum / copy / zero, never a fold that can return a child's array - and no capacity vector is written in place through out=; C01.6 the lease is neutralised before the leaf placement of restore and not set again before it.
Does NOT decide the arithmetic identity free = capacity - sum(demand) over
histories nor value-level behaviour of the unit parsers.
"""

ASSUMPTIONS = [
    'numpy in-place arithmetic on free_capacity behaves like the scalar '
    'operators the source spells',
    'Loader.restore_placement is an explicit exception of C01.4: it empties '
    'the server (remove_all) before restoring',
]

MIN_OBLIGATIONS = 20
MIN_PER_RULE = {'C01.1': 2, 'C01.2': 3, 'C01.3': 1, 'C01.4': 3, 'C01.5': 4,
                'C01.6': 2, 'C01.7': 4, 'C01.8': 2, 'C01.9': 6}

UTILS = 'treadmill.utils'


def _roles(ctx):
    index = ctx.index
    mod = index.module(K.SCHED)
    helpers = N.VecHelpers(mod)
    nz = N.Normaliser(helpers)
    server = index.get_class(K.SCHED, 'Server')
    node_cls = index.get_class(K.SCHED, 'Node')
    # leaf placement: Server method that stores into self.apps[...]
    puts = []
    removes = []
    for func in server.live_methods():
        for sub in K.walk_no_nested(func.node):
            if isinstance(sub, ast.Assign) and any(
                    isinstance(t, ast.Subscript) and
                    N.txt(t.value) == 'self.apps' for t in sub.targets):
                puts.append(func)
            if isinstance(sub, ast.Delete) and any(
                    isinstance(t, ast.Subscript) and
                    N.txt(t.value) == 'self.apps' for t in sub.targets):
                removes.append(func)
            if isinstance(sub, ast.Call) and K.is_meth(sub, 'pop') and \
                    K.recv_text(sub) == 'self.apps':
                removes.append(func)
    put = K.one(set(puts), 'Server method storing into self.apps')
    remove = K.one(set(removes), 'Server method deleting from self.apps')
    # admission predicate: Node-family method testing a vector atom over
    # free_capacity
    preds = []
    for cls in (node_cls, server):
        for func in cls.live_methods():
            for sub in K.walk_no_nested(func.node):
                if isinstance(sub, ast.Call):
                    atom = nz.atom(sub)
                    if atom.kind == 'vec' and any(
                            m.endswith('free_capacity')
                            for m in atom.mentions) and any(
                                m.endswith('.demand')
                                for m in atom.mentions):
                        preds.append(func)
    if not preds:
        # fall back on the name: the helper may have been edited so that
        # it no longer normalises (then C01.1 reports it)
        func = index.find_method(node_cls, 'check_app_constraints')
        if func is not None:
            preds.append(func)
    pred = K.one(set(preds), 'admission predicate comparing demand with '
                             'free_capacity')
    return nz, server, node_cls, put, remove, pred


def _admission(ctx, nz, put, pred):
    graph = ctx.cfg(pred)
    facts = N.must_facts(graph, nz)
    rets = [n for n in graph.nodes if n.kind == 'return']
    positive = 0
    for node in rets:
        val = node.ast.value
        if val is None or (isinstance(val, ast.Constant) and not val.value):
            continue
        positive += 1
        have = set(facts[node])
        if not isinstance(val, ast.Constant):
            form = nz.formula(val)
            if form[0] == 'atom':
                have.add(form[1])
            elif form[0] == 'and':
                have |= set(p[1] for p in form[1] if p[0] == 'atom')
        good = [a for a in have if a.kind == 'vec' and a.key[1] == 'ALL' and
                a.key[2] in ('<=', '<') and a.key[3].endswith('.demand') and
                a.key[4].endswith('free_capacity')]
        vecs = [N.show(a) for a in have if a.kind == 'vec']
        ctx.ob('C01.1', pred, node, bool(good),
               'admission requires %s' % (
                   N.show(good[0]) if good else
                   'ALL(demand <= free_capacity), found only: %s' % (
                       vecs or 'no vector comparison that normalises')))
    ctx.require(positive >= 1, 'truthy return of the admission predicate',
        rule='C01.1')

    # the leaf placement stores only after the predicate returned true
    pgraph = ctx.cfg(put)
    pname = pred.name
    stores = [n for n in pgraph.nodes if n.kind == 'stmt' and
              isinstance(n.ast, ast.Assign) and any(
                  isinstance(t, ast.Subscript) and
                  N.txt(t.value) == 'self.apps' for t in n.ast.targets)]

    def established(edge):
        for atom in nz.facts_of_edge(edge):
            if atom.key[0] == 'truth' and atom.key[2] and \
                    atom.key[1].startswith('self.%s(' % pname):
                return True
        return False
    for node in stores:
        ok = K.guarded_by(pgraph, node, established)
        ctx.ob('C01.1', put, node, ok,
               'store into self.apps dominated by a true result of '
               'self.%s(...)' % pname)


def _node_func(node):
    graph = getattr(node, 'cfg', None)
    return getattr(graph, 'func', None)


def _effects_put(node, appvar):
    """Effects of a node of Server.put: indices of
    (capacity, apps, server, affinity)."""
    out = []
    stmt = node.ast
    if node.kind != 'stmt':
        return out
    if isinstance(stmt, ast.AugAssign) and \
            N.txt(stmt.target) == 'self.free_capacity':
        if isinstance(stmt.op, ast.Sub) and \
                N.txt(stmt.value) == '%s.demand' % appvar:
            out.append(0)
        else:
            out.append('bad:free_capacity updated by something else')
    if isinstance(stmt, ast.Assign):
        for tgt in stmt.targets:
            if N.txt(tgt) == 'self.free_capacity':
                lin = N.linear(stmt.value)
                if lin == N.linear(ast.parse(
                        'self.free_capacity - %s.demand' % appvar,
                        mode='eval').body):
                    out.append(0)
                else:
                    out.append('bad:free_capacity assigned something else')
            if isinstance(tgt, ast.Subscript) and \
                    N.txt(tgt.value) == 'self.apps':
                if N.txt(tgt.slice) == '%s.name' % appvar and \
                        N.txt(stmt.value) == appvar:
                    out.append(1)
                else:
                    out.append('bad:self.apps keyed/valued differently')
            if N.txt(tgt) == '%s.server' % appvar:
                if N.txt(stmt.value) == 'self.name':
                    out.append(2)
                else:
                    out.append('bad:%s.server set to %s' % (
                        appvar, N.txt(stmt.value)))
    for call in C.node_calls(node):
        if K.is_meth(call, 'increment_affinity') and \
                K.recv_text(call) == 'self':
            if call.args and K.singleton_of(
                    _node_func(node), call.args[0],
                    '%s.affinity.name' % appvar):
                out.append(3)
            else:
                out.append('bad:increment_affinity of something else')
        if K.is_meth(call, 'decrement_affinity') and \
                K.recv_text(call) == 'self':
            out.append('bad:decrement in put')
    return out


def _effects_remove(node, keyvar, appvar):
    out = []
    stmt = node.ast
    if node.kind != 'stmt':
        return out
    if isinstance(stmt, ast.Delete):
        for tgt in stmt.targets:
            if isinstance(tgt, ast.Subscript) and \
                    N.txt(tgt.value) == 'self.apps':
                out.append(1 if N.txt(tgt.slice) in (
                    keyvar, '%s.name' % appvar) else 'bad:deletes other key')
    if isinstance(stmt, ast.AugAssign) and \
            N.txt(stmt.target) == 'self.free_capacity':
        if isinstance(stmt.op, ast.Add) and \
                N.txt(stmt.value) == '%s.demand' % appvar:
            out.append(0)
        else:
            out.append('bad:free_capacity updated by something else')
    if isinstance(stmt, ast.Assign):
        for tgt in stmt.targets:
            if N.txt(tgt) == 'self.free_capacity':
                lin = N.linear(stmt.value)
                if lin == N.linear(ast.parse(
                        'self.free_capacity + %s.demand' % appvar,
                        mode='eval').body):
                    out.append(0)
                else:
                    out.append('bad:free_capacity assigned something else')
            if N.txt(tgt) == '%s.server' % appvar:
                if isinstance(stmt.value, ast.Constant) and \
                        stmt.value.value is None:
                    out.append(2)
                else:
                    out.append('bad:server not cleared')
    for call in C.node_calls(node):
        if K.is_meth(call, 'pop') and K.recv_text(call) == 'self.apps':
            out.append(1)
        if K.is_meth(call, 'decrement_affinity') and \
                K.recv_text(call) == 'self':
            if call.args and K.singleton_of(
                    _node_func(node), call.args[0],
                    '%s.affinity.name' % appvar):
                out.append(3)
            else:
                out.append('bad:decrement_affinity of something else')
    return out


_EFFECT_NAMES = ['free_capacity', 'apps', 'app.server', 'affinity counter']


def _pair(ctx, put, remove):
    # ---- put ---------------------------------------------------------
    graph = ctx.cfg(put)
    appvar = put.params()[1]

    def step(edge, state):
        if edge.kind == 'exc':
            return []
        counts, bad = state
        for eff in _effects_put(edge.src, appvar):
            if isinstance(eff, str):
                bad = eff
            else:
                lst = list(counts)
                lst[eff] = min(2, lst[eff] + 1)
                counts = tuple(lst)
        return [(counts, bad)]
    reached = C.explore(graph, [((0, 0, 0, 0), None)], step)
    rets = [n for n in graph.nodes if n.kind == 'return']
    ctx.require(rets, 'return statements of %s' % put.qualname, rule='C01.2')
    for node in rets:
        val = node.ast.value
        truthy = isinstance(val, ast.Constant) and bool(val.value)
        falsy = val is None or (isinstance(val, ast.Constant) and
                                not val.value)
        states = [s for (n, s) in reached if n is node]
        problems = []
        for counts, bad in states:
            if bad:
                problems.append(bad[4:])
            if truthy and counts != (1, 1, 1, 1):
                problems.append('success path with effect counts %s' %
                                dict(zip(_EFFECT_NAMES, counts)))
            if falsy and counts != (0, 0, 0, 0):
                problems.append('failure path with partial effects %s' %
                                dict(zip(_EFFECT_NAMES, counts)))
            if not truthy and not falsy and counts not in (
                    (0, 0, 0, 0), (1, 1, 1, 1)):
                problems.append('partial effects %s' %
                                dict(zip(_EFFECT_NAMES, counts)))
        wit = None
        if problems:
            for (n, s) in reached:
                if n is node:
                    wit = K.describe(C.witness(reached, (n, s)))
        ctx.ob('C01.2', put, node, not problems,
               'all four placement effects exactly once on success, none '
               'on failure' if not problems else '; '.join(sorted(set(
                   problems))), path=wit, evals=max(1, len(states)),
               construct='%s [%s]' % (node.text(), K.controlling(node,
                                                                 graph)))
    # ---- remove --------------------------------------------------------
    graph = ctx.cfg(remove)
    keyvar = remove.params()[1]
    # local name bound to self.apps[key]
    appvar = None
    for sub in K.walk_no_nested(remove.node):
        if isinstance(sub, ast.Assign) and len(sub.targets) == 1 and \
                isinstance(sub.targets[0], ast.Name) and \
                N.txt(sub.value) in ('self.apps[%s]' % keyvar,
                                     'self.apps.pop(%s)' % keyvar):
            appvar = sub.targets[0].id
    ctx.require(appvar, 'local bound to self.apps[<key>] in %s' %
                remove.qualname, rule='C01.2')

    def rstep(edge, state):
        if edge.kind == 'exc':
            return []
        counts, bad = state
        for eff in _effects_remove(edge.src, keyvar, appvar):
            if isinstance(eff, str):
                bad = eff
            else:
                lst = list(counts)
                lst[eff] = min(2, lst[eff] + 1)
                counts = tuple(lst)
        return [(counts, bad)]
    reached = C.explore(graph, [((0, 0, 0, 0), None)], rstep)
    states = [s for (n, s) in reached if n is graph.exit]
    ctx.require(states, 'normal exit of %s' % remove.qualname, rule='C01.2')
    problems = []
    for counts, bad in states:
        if bad:
            problems.append(bad[4:])
        if counts != (1, 1, 1, 1):
            problems.append('exit with inverse-effect counts %s' %
                            dict(zip(_EFFECT_NAMES, counts)))
    ctx.ob('C01.2', remove, None, not problems,
           'the four inverse effects happen exactly once on every normal '
           'path' if not problems else '; '.join(sorted(set(problems))),
           construct='exits of %s' % remove.qualname,
           evals=max(1, len(states)))


def _owner(ctx, server, put, remove, detached_exception=True):
    """Who may write the placement state.  ``detached_exception``: whether
    the one writer outside Server.put / Server.remove - the validation pass
    clearing the server of an instance whose server is no longer in the
    cell - counts as harmless.  It does for the properties whose histories
    keep the topology fixed; for C01 (servers added and removed) it is
    finding F18: the server object that left keeps listing the instance."""
    index = ctx.index
    mods = [index.module(K.SCHED), index.module(K.LOADER),
            index.module(K.MASTER)]
    if ctx.tier in ('quick', 'thorough'):   # whole-package clause, cheap enough for every run
        mods = [m for m in index.modules.values()
                if m.name.startswith('treadmill.') and
                ('treadmill.scheduler' in m.imports.values() or
                 m.name.startswith('treadmill.scheduler'))]
    node_family = set(c.name for c in index.module(K.SCHED).classes.values()
                      if server in index.mro(c) or c in index.mro(server)
                      or c.name in ('Bucket', 'Cell'))
    allowed_server_writers = {put.qualname, remove.qualname,
                              'Server.__init__'}
    sites = 0
    for mod in mods:
        for func in mod.live_functions():
            for sub in K.walk_no_nested(func.node):
                targets = []
                if isinstance(sub, ast.Assign):
                    targets = [(t, sub.value) for t in sub.targets]
                elif isinstance(sub, ast.AugAssign):
                    targets = [(sub.target, sub.value)]
                elif isinstance(sub, ast.Delete):
                    targets = [(t, None) for t in sub.targets]
                elif isinstance(sub, ast.Call) and K.is_meth(
                        sub, 'pop', 'clear', 'update', 'setdefault',
                        'popitem') and isinstance(K.recv(sub),
                                                  ast.Attribute) and \
                        K.recv(sub).attr == 'apps' and \
                        func.cls is not None and func.cls.name == 'Server':
                    targets = [(K.recv(sub), None)]
                flat = []
                for tgt, val in targets:
                    if isinstance(tgt, (ast.Tuple, ast.List)):
                        flat.extend((e, val) for e in tgt.elts)
                    else:
                        flat.append((tgt, val))
                for tgt, val in flat:
                    base = tgt.value if isinstance(tgt, ast.Subscript) \
                        else tgt
                    if not isinstance(base, ast.Attribute):
                        continue
                    attr = base.attr
                    rtxt = N.txt(base.value)
                    incls = func.cls.name if func.cls is not None else None
                    if attr in ('free_capacity', 'init_capacity'):
                        sites += 1
                        ok = rtxt == 'self' and incls in node_family
                        if ok and incls == 'Server' and \
                                attr == 'free_capacity':
                            ok = func.qualname in allowed_server_writers
                        ctx.ob('C01.3', func, sub, ok,
                               '%s written by its owner class only' % attr
                               if ok else
                               '%s.%s is written outside the owning '
                               'routines' % (rtxt, attr))
                    elif attr == 'apps' and incls == 'Server' and \
                            rtxt == 'self':
                        sites += 1
                        ok = func.qualname in allowed_server_writers
                        ctx.ob('C01.3', func, sub, ok,
                               'Server.apps changed only by put/remove')
                    elif attr == 'apps' and isinstance(tgt, ast.Subscript) \
                            and rtxt not in ('self', 'self.cell') and \
                            incls not in ('Allocation', 'Cell') and \
                            mod.name.startswith('treadmill.scheduler') and \
                            'server' in rtxt.lower():
                        sites += 1
                        ctx.fail('C01.3', func, sub,
                                 '%s.apps[...] written outside Server' %
                                 rtxt)
                    elif attr == 'server' and not isinstance(
                            tgt, ast.Subscript) and \
                            mod.name.startswith('treadmill.scheduler') and \
                            not (rtxt == 'self' and
                                 incls != 'Application'):
                        sites += 1
                        is_none = isinstance(val, ast.Constant) and \
                            val.value is None
                        vanished = False
                        if func.qualname == 'Cell._fix_invalid_placements' \
                                and is_none:
                            # ... only for a server that is not in the map
                            # of the cell's servers: one that is gets the
                            # instance removed through Server.remove, or it
                            # keeps listing it
                            fgraph = ctx.cfg(func)
                            fnz = N.Normaliser()
                            ffacts = N.must_facts(fgraph, fnz)
                            servers_p = func.params()[-1]
                            for fnode in fgraph.nodes:
                                if fnode.kind == 'stmt' and \
                                        fnode.ast is sub:
                                    vanished = any(
                                        f.key[0] == 'in' and not f.key[3]
                                        and f.key[1] == '%s.server' % rtxt
                                        and f.key[2] == servers_p
                                        for f in ffacts[fnode])
                        ok = func.qualname in (put.qualname,
                                               remove.qualname,
                                               'Application.__init__') or \
                            (func.qualname == 'Cell._fix_invalid_placements'
                             and is_none and vanished)
                        if ok and vanished and not detached_exception:
                            # F18: the instance is un-placed without being
                            # taken off the server object - which is only
                            # detached, not gone: when its bucket is added
                            # to the cell again it still lists the instance
                            # (free capacity short by its demand, a second
                            # "owner" of an instance that lives elsewhere)
                            ctx.fail('C01.3', func, sub,
                                     'an instance whose server left the cell '
                                     'is un-placed by clearing %s.server '
                                     'alone: the detached server keeps '
                                     'listing it and counting its demand, and '
                                     'says so again when its bucket returns '
                                     'to the cell' % rtxt,
                                     construct='un-placed without '
                                               'Server.remove')
                            continue
                        ctx.ob('C01.3', func, sub, ok,
                               'Application.server written by the leaf '
                               'placement/removal only (named exception: '
                               'Cell._fix_invalid_placements clears it for '
                               'a server that no longer exists)' if ok else
                               '%s.server is written outside Server.put/'
                               'remove' % rtxt)
    ctx.require(sites >= 6, 'writers of the placement state (found %d)' %
                sites, rule='C01.3')


def _fresh_vectors(ctx, server):
    """C01.3: the free-capacity vector of a server belongs to the server.
    The aggregates above it are computed *from* it and stored as values of
    their own: a bucket's free capacity is assigned the result of a vector
    operation that builds a new array (maximum / minimum / copy / zero), and
    no capacity vector is updated in place through ``out=``.  A bucket that
    ends up holding the very array of its only child (a fold that returns
    its single element) and is then raised in place hands that child free
    capacity it does not have - an oversubscription with the declared
    capacity untouched."""
    index = ctx.index
    mod = index.module(K.SCHED)
    fresh_calls = ('maximum', 'minimum', 'fmax', 'fmin', 'copy',
                   'zero_capacity', 'eps_capacity', 'array', 'zeros',
                   'full', 'asarray')
    judged = 0
    for cls in mod.classes.values():
        if cls is server or server in index.mro(cls):
            continue
        if not any(c.name == 'Node' for c in index.mro(cls)):
            continue
        for func in cls.live_methods():
            defs = {}
            for sub in K.walk_no_nested(func.raw):
                if isinstance(sub, ast.Assign) and len(sub.targets) == 1 \
                        and isinstance(sub.targets[0], ast.Name):
                    defs.setdefault(sub.targets[0].id, []).append(sub.value)

            def fresh(expr, depth=0, defs=defs, func=func):
                if isinstance(expr, ast.Call) and isinstance(
                        expr.func, ast.Attribute) and \
                        N.txt(expr.func.value) == 'self' and depth < 3:
                    # a helper of the class: every value it returns
                    inner = index.find_method(func.cls, expr.func.attr) \
                        if func.cls is not None else None
                    if inner is not None:
                        idefs = {}
                        for sub2 in K.walk_no_nested(inner.raw):
                            if isinstance(sub2, ast.Assign) and \
                                    len(sub2.targets) == 1 and isinstance(
                                        sub2.targets[0], ast.Name):
                                idefs.setdefault(sub2.targets[0].id,
                                                 []).append(sub2.value)
                        rets = [r.value for r in K.walk_no_nested(inner.raw)
                                if isinstance(r, ast.Return)]
                        return bool(rets) and all(
                            r is not None and fresh(r, depth + 1, idefs,
                                                    inner) for r in rets)
                if isinstance(expr, ast.Call):
                    name = (dotted_text(expr.func) or '').split('.')[-1]
                    if isinstance(expr.func, ast.Attribute) and \
                            expr.func.attr == 'copy':
                        return True
                    return name in fresh_calls
                if isinstance(expr, ast.BinOp):
                    return True         # arithmetic builds a new array
                if isinstance(expr, ast.Name) and depth < 3 and \
                        expr.id in defs:
                    return all(fresh(v, depth + 1, defs, func)
                               for v in defs[expr.id])
                return False
            for sub in K.walk_no_nested(func.raw):
                if isinstance(sub, ast.Assign) and any(
                        N.txt(t) == 'self.free_capacity'
                        for t in sub.targets):
                    judged += 1
                    ctx.ob('C01.3', func, sub, fresh(sub.value),
                           'the aggregate is assigned a vector of its own '
                           '(result of maximum / copy / zero ...), never one '
                           "that may be a child's array (%s)" %
                           N.txt(sub.value)[:50],
                           construct='aggregate vector is fresh: %s' %
                           N.txt(sub.value)[:40])
    for func in mod.live_functions():
        for call in K.calls(func.raw):
            for kw in call.keywords:
                if kw.arg == 'out' and isinstance(kw.value, ast.Attribute) \
                        and kw.value.attr in ('free_capacity',
                                              'init_capacity'):
                    ctx.fail('C01.3', func, call,
                             'a capacity vector is updated in place through '
                             "out=%s: whoever shares the array (a bucket "
                             'holding the vector of its only child) is '
                             'changed with it' % N.txt(kw.value),
                             construct='capacity vector written in place')
    ctx.require(judged >= 2, 'assignments of a bucket aggregate (found %d)'
                % judged, rule='C01.3')


def _single_placement(ctx):
    loop = PlacementLoop(ctx)
    count = 0
    for node in loop.body():
        for call in C.node_calls(node):
            if not loop.places(call):
                continue
            count += 1
            states = loop.states_before(node)
            bad = [s for s in states if s[0] != 'N']
            path = None
            if bad:
                path = K.describe(loop.witness_to(
                    node, lambda s: s[0] != 'N') or [])
            ctx.ob('C01.4', loop.func, node, not bad,
                   'instance is not placed whenever this placement is '
                   'attempted (states: %s)' % sorted(states),
                   path=path, evals=max(1, len(states)))
    ctx.require(count >= 3, 'placement calls in the placement loop',
        rule='C01.4')
    # Loader.restore_placement: the named exception - server emptied first
    loader = ctx.index.get_class(K.LOADER, 'Loader')
    func = K.one([f for f in loader.live_methods()
                  if K.func_calls_method(f, 'restore') and
                  K.func_calls_method(f, 'remove_all')],
                 'Loader method restoring recorded placements')
    graph = ctx.cfg(func)
    for node, call in K.nodes_calling(
            graph, lambda c: K.is_meth(c, 'put', 'restore') and
            c.args and isinstance(c.args[0], ast.Name)):
        rcv = K.recv_text(call)
        if rcv in ('self.backend',):
            continue
        ok = K.guarded_by(
            graph, node, lambda e, r=rcv: any(
                K.is_meth(c, 'remove_all') and K.recv_text(c) == r
                for c in C.node_calls(e.src)))
        ctx.ob('C01.4', func, node, ok,
               '%s.remove_all() precedes every restore on that server' % rcv)


def _conversion(ctx):
    index = ctx.index
    loader = index.module(K.LOADER)
    res = loader.functions.get('resources')
    ctx.require(res is not None, 'loader.resources')
    # structure of resources(): dict of parsers + ordered key list, or an
    # unrolled list of parser(data.get(<dimension>, ...)) calls
    parsers = None
    order = None
    for sub in K.walk_no_nested(res.node):
        if isinstance(sub, ast.Dict) and parsers is None and sub.keys and \
                all(isinstance(k, ast.Constant) for k in sub.keys):
            parsers = {k.value: dotted_text(v) for k, v in
                       zip(sub.keys, sub.values)}
        if isinstance(sub, (ast.ListComp, ast.GeneratorExp)):
            it = sub.generators[0].iter
            if isinstance(it, (ast.List, ast.Tuple)):
                order = [e.value for e in it.elts
                         if isinstance(e, ast.Constant)]
        if isinstance(sub, ast.For) and isinstance(
                sub.iter, (ast.List, ast.Tuple)) and isinstance(
                    sub.target, ast.Name) and order is None:
            # the comprehension written as a loop appending to the result
            order = [e.value for e in sub.iter.elts
                     if isinstance(e, ast.Constant)]
    if parsers is None or order is None:
        # a table of (dimension, parser) rows consumed by one comprehension
        for sub in K.walk_no_nested(res.node):
            if not isinstance(sub, (ast.ListComp, ast.GeneratorExp)):
                continue
            rows = K.rexpr(res, sub.generators[0].iter)
            if isinstance(rows, (ast.Tuple, ast.List)) and rows.elts and \
                    all(isinstance(r, (ast.Tuple, ast.List)) and
                        len(r.elts) == 2 and
                        isinstance(r.elts[0], ast.Constant)
                        for r in rows.elts) and \
                    isinstance(sub.generators[0].target, ast.Tuple) and \
                    len(sub.generators[0].target.elts) == 2:
                kname = N.txt(sub.generators[0].target.elts[0])
                pname = N.txt(sub.generators[0].target.elts[1])
                elt = sub.elt
                if isinstance(elt, ast.Call) and N.txt(elt.func) == pname \
                        and elt.args and kname in N.txt(elt.args[0]):
                    parsers = dict((r.elts[0].value, dotted_text(r.elts[1]))
                                   for r in rows.elts)
                    order = [r.elts[0].value for r in rows.elts]
    if parsers is None or order is None:
        for sub in K.walk_no_nested(res.node):
            if isinstance(sub, ast.Return) and isinstance(
                    sub.value, (ast.List, ast.Tuple)):
                parsers, order = {}, []
                for elt in sub.value.elts:
                    elt = K.rexpr(res, elt)
                    key = None
                    if isinstance(elt, ast.Call) and len(elt.args) == 1:
                        arg = elt.args[0]
                        if isinstance(arg, ast.Call) and K.is_meth(
                                arg, 'get') and arg.args and isinstance(
                                    arg.args[0], ast.Constant):
                            key = arg.args[0].value
                        elif isinstance(arg, ast.Subscript) and isinstance(
                                arg.slice, ast.Constant):
                            key = arg.slice.value
                    if key is None:
                        parsers = order = None
                        break
                    parsers[key] = dotted_text(elt.func)
                    order.append(key)
    ctx.require(parsers is not None and order is not None,
                'dimension -> parser table of loader.resources', rule='C01.5')
    ctx.ob('C01.5', res, None, set(parsers) == set(order) and
           len(order) == len(set(order)),
           'dimension list %s = parser table keys %s' % (
               order, sorted(parsers)), construct='resources: dimensions')
    ctx.ob('C01.5', res, None,
           parsers.get('memory') == parsers.get('disk') and
           parsers.get('memory', '').endswith('megabytes') and
           parsers.get('cpu', '').endswith('cpu_units'),
           'memory and disk share one parser (%s), cpu uses %s' % (
               parsers.get('memory'), parsers.get('cpu')),
           construct='resources: parsers')
    # every vector handed to the scheduler comes from resources()
    mods = [index.module(K.LOADER), index.module(K.MASTER)]
    if ctx.tier in ('quick', 'thorough'):   # whole-package clause, cheap enough for every run
        mods = [m for m in index.modules.values()
                if 'treadmill.scheduler' in m.imports.values()]
    seen = 0
    for mod in mods:
        for func in mod.live_functions():
            for sub in K.walk_no_nested(func.node):
                if not isinstance(sub, ast.Call):
                    continue
                name = dotted_text(sub.func) or ''
                arg = None
                what = None
                if name in ('scheduler.Server',):
                    arg = sub.args[1] if len(sub.args) > 1 else \
                        K.kwarg(sub, 'capacity')
                    what = 'server capacity'
                elif name in ('scheduler.Application',):
                    arg = sub.args[2] if len(sub.args) > 2 else \
                        K.kwarg(sub, 'demand')
                    what = 'instance demand'
                elif K.is_meth(sub, 'update') and len(sub.args) >= 3 and \
                        'alloc' in (K.recv_text(sub) or ''):
                    arg = sub.args[0]
                    what = 'allocation reservation'
                if what is None or arg is None:
                    continue
                seen += 1
                src = arg
                if isinstance(arg, ast.Name):
                    defs = [s for s in K.walk_no_nested(func.node)
                            if isinstance(s, ast.Assign) and
                            len(s.targets) == 1 and
                            N.txt(s.targets[0]) == arg.id]
                    if len(defs) == 1:
                        src = defs[0].value
                ok = isinstance(src, ast.Call) and \
                    (dotted_text(src.func) or '').split('.')[-1] == \
                    'resources'
                ctx.ob('C01.5', func, sub, ok,
                       '%s is produced by resources(): %s' % (
                           what, N.txt(src)[:60]),
                       construct='%s <- %s' % (what, N.txt(arg)))
    ctx.require(seen >= 3, 'constructor sites receiving resource vectors',
        rule='C01.5')


def _restore(ctx, server, put, rule='C01.6'):
    func = K.one([f for f in server.live_methods()
                  if f is not put and any(
                      isinstance(s, ast.Assign) and any(
                          N.txt(t).endswith('.lease') for t in s.targets)
                      for s in K.walk_no_nested(f.node))],
                 'Server method neutralising the lease')
    graph = ctx.cfg(func)
    appvar = func.params()[1]
    puts = K.nodes_calling(graph, lambda c: K.is_meth(c, put.name) and
                           K.recv_text(c) == 'self')
    ctx.require(puts, 'self.%s call in %s' % (put.name, func.qualname),
        rule=rule)
    zero = [n for n in graph.nodes if any(
        N.txt(t) == '%s.lease' % appvar and isinstance(v, ast.Constant)
        and v.value == 0 for t, v, _k in K.assigns_attr(n))]
    saved = None
    for sub in K.walk_no_nested(func.node):
        if isinstance(sub, ast.Assign) and len(sub.targets) == 1 and \
                isinstance(sub.targets[0], ast.Name) and \
                N.txt(sub.value) == '%s.lease' % appvar:
            saved = sub.targets[0].id
    other_stores = [n for n in graph.nodes if n not in zero and any(
        N.txt(t) == '%s.lease' % appvar for t, _v, _k in K.assigns_attr(n))]
    for node, _call in puts:
        ok = bool(zero) and K.guarded_by(
            graph, node, lambda e: e.src in zero)
        # ... and it is still zero when the placement runs: no path from
        # the neutralising store to the placement passes another store of
        # the lease (a "remaining lease" put back in makes the restore
        # subject to the lifetime test again)
        again = None
        for z in zero:
            again = again or K.find_path(
                z, [node], cut_node=lambda n: False, follow_exc=False,
                cut_edge=lambda e: e.src is not z and e.src not in
                other_stores and False)
            hit = [o for o in other_stores
                   if K.find_path(z, [o], follow_exc=False) is not None and
                   K.find_path(o, [node], follow_exc=False) is not None]
            if hit:
                ok = False
        ctx.ob(rule, func, node, ok,
               'lease neutralised before the leaf placement (and not set '
               'again before it)')
        reinst = [n for n in graph.nodes if any(
            N.txt(t) == '%s.lease' % appvar and saved and N.txt(v) == saved
            for t, v, _k in K.assigns_attr(n))]
        path = K.find_path(node, [graph.exit],
                           cut_node=lambda n: n in reinst,
                           follow_exc=False)
        ctx.ob(rule, func, node, bool(saved) and path is None,
               'saved lease re-instated on every exit after the placement',
               path=K.describe(path) if path else None,
               construct='re-instate lease after ' + node.text())
    # restore performs no placement effect of its own
    own = []
    for node in graph.nodes:
        own.extend(e for e in _effects_put(node, appvar)
                   if not isinstance(e, str))
    ctx.ob(rule, func, None, not own,
           'restore has no placement effect of its own (places only through '
           'self.%s)' % put.name, construct='effects of %s' % func.qualname)


def _units(ctx):
    index = ctx.index
    utils = index.module(UTILS)
    s2b = utils.functions.get('size_to_bytes')
    kb = utils.functions.get('kilobytes')
    mbf = utils.functions.get('megabytes')
    cpu = utils.functions.get('cpu_units')
    ctx.require(s2b and kb and mbf and cpu, 'unit parsers in utils',
        rule='C01.7')
    # default base of size_to_bytes: the first constant assigned to the
    # local used as base of pow()
    base_name = None
    for sub in K.walk_no_nested(s2b.node):
        if isinstance(sub, ast.Call) and dotted_text(sub.func) == 'pow' \
                and sub.args and isinstance(sub.args[0], ast.Name):
            base_name = sub.args[0].id
        if isinstance(sub, ast.BinOp) and isinstance(sub.op, ast.Pow) and \
                isinstance(sub.left, ast.Name):
            base_name = sub.left.id
    ctx.require(base_name, 'base ** scale in size_to_bytes', rule='C01.7')
    graph = ctx.cfg(s2b)
    consts = []
    for node in graph.nodes:
        if node.kind == 'stmt' and isinstance(node.ast, ast.Assign) and \
                N.txt(node.ast.targets[0]) == base_name:
            val = node.ast.value
            cond = K.controlling(node, graph)
            consts.append((val.value if isinstance(val, ast.Constant)
                           else None, cond, node))
    def decimal_branch(cond):
        # the assignment runs on the outcome "the unit ends in 'B'"
        if "'B'" not in cond:
            return False
        positive = "!= 'B'" not in cond and "not " not in cond.split(
            '->')[0]
        return cond.rstrip().endswith('-> true') == positive
    default = [c for c in consts if not decimal_branch(c[1])]
    ctx.ob('C01.7', s2b, default[0][2] if default else None,
           len(default) == 1 and default[0][0] == 1024,
           'binary base for un-suffixed units is %s' % (
               default[0][0] if default else None),
           construct='default base of size_to_bytes')

    # the suffix table: B K M G T P E Z Y are successive powers of the base
    # (1T = 1024G, 1P = 1024T)
    scale = utils.consts.get('_SIZE_SCALE')
    table = K.fold_literal_table(scale) if scale is not None else None
    want = dict((s, i) for i, s in enumerate('BKMGTPEZY'))
    ctx.ob('C01.7', s2b, None, table == want,
           'the size suffixes B K M G T P E Z Y stand for successive powers '
           'of the base (found %s)' % (sorted(
               table.items(), key=lambda kv: kv[1]) if isinstance(
                   table, dict) else 'a table that is not a literal'),
           construct='size suffix order')

    def divisor(func, callee):
        for sub in K.walk_no_nested(func.node):
            if not isinstance(sub, ast.Return) or sub.value is None:
                continue
            val = K.rexpr(func, sub.value)
            if isinstance(val, ast.BinOp) and \
                    isinstance(val.op, (ast.FloorDiv, ast.Div)) and \
                    isinstance(val.left, ast.Call) and \
                    dotted_text(val.left.func) == callee and \
                    isinstance(val.right, ast.Constant):
                return val.right.value, sub
        return None, None
    val, node = divisor(kb, 'size_to_bytes')
    ctx.ob('C01.7', kb, node, val == 1024,
           'kilobytes = size_to_bytes // %s' % val,
           construct='divisor of kilobytes')
    val, node = divisor(mbf, 'kilobytes')
    ctx.ob('C01.7', mbf, node, val == 1024,
           'megabytes = kilobytes // %s' % val,
           construct='divisor of megabytes')
    scaled = [s for s in K.walk_no_nested(cpu.node)
              if isinstance(s, ast.BinOp) and
              isinstance(s.op, (ast.Mult, ast.Div, ast.FloorDiv))]
    strips = any(isinstance(s, ast.Call) and K.is_meth(s, 'endswith') and
                 s.args and isinstance(s.args[0], ast.Constant) and
                 s.args[0].value == '%'
                 for s in K.walk_no_nested(cpu.node))
    ctx.ob('C01.7', cpu, None, strips and not scaled,
           "cpu_units strips '%' without scaling (100% = 100)",
           construct='cpu_units')


def _model_exit(ctx):
    """C01.8: a server object leaves the model only after its placements
    were released (otherwise instances keep naming a server that does not
    list them)."""
    loader = ctx.index.get_class(K.LOADER, 'Loader')
    count = 0
    for func in loader.live_methods():
        graph = None
        for sub in K.walk_no_nested(func.node):
            if isinstance(sub, ast.Delete) and any(
                    isinstance(t, ast.Subscript) and
                    N.txt(t.value) == 'self.servers' for t in sub.targets):
                graph = graph or ctx.cfg(func)
                site = [n for n in graph.nodes if n.ast is sub][0]
                count += 1
                ok = K.guarded_by(graph, site, lambda e: any(
                    K.is_meth(c, 'remove_all')
                    for c in C.node_calls(e.src)))
                ctx.ob('C01.8', func, site, ok,
                       'a server is dropped from the model only after '
                       'remove_all() released its placements')
                det = K.guarded_by(graph, site, lambda e: any(
                    K.is_meth(c, 'remove_node', 'remove_node_by_name')
                    for c in C.node_calls(e.src)))
                ctx.ob('C01.8', func, site, det,
                       'and after it was detached from its bucket '
                       '(remove_node)',
                       construct=site.text() + ' <= remove_node')
    ctx.require(count >= 1, 'del self.servers[...] in Loader', rule='C01.8')
    # ... and remove_all() does release them: it removes every instance the
    # server lists through Server.remove (the routine that keeps capacity,
    # the instance's view and the counters in step)
    server = ctx.index.get_class(K.SCHED, 'Server')
    ra = server.methods.get('remove_all')
    ctx.require(ra is not None, 'Server.remove_all')
    rgraph = ctx.cfg(ra)
    loops = [n for n in rgraph.nodes if n.kind == 'for' and
             'self.apps' in K.rtxt(ra, n.ast.iter)]
    ok = False
    for loop in loops:
        var = sorted(N.for_targets(loop))[0]
        body = K.loop_body_nodes(loop)
        removes = [n for n in body if any(
            K.is_meth(c, 'remove') and K.recv_text(c) == 'self' and c.args
            and N.txt(c.args[0]) in (var, '%s.name' % var)
            for c in C.node_calls(n))]
        skip = K.find_path(loop, [loop], cut_node=lambda n: n in removes,
                           cut_edge=lambda e, lp=loop: e.src is lp and
                           e.kind == 'done', follow_exc=False)
        early = [e for e in K.loop_exit_edges(loop)
                 if e.kind not in ('done', 'exc')]
        ok = ok or (bool(removes) and skip is None and not early)
    ctx.ob('C01.8', ra, loops[0] if loops else None, ok,
           'remove_all() removes every instance the server lists through '
           'Server.remove', construct='remove_all releases every placement')


def _reported(ctx):
    """C01.9 (shared with C09.3 / C09.4): the stored server-to-instance
    view follows the model - a cycle reports every placement change it
    makes, and the only placement changes outside a cycle
    (Loader.restore_placement) rewrite or delete the record."""
    from . import c09
    from . import sched_model as SM
    SM.snapshot_brackets(ctx, 'C01.9')
    master = ctx.index.get_class(K.MASTER, 'Master')
    c09.writer_callers(ctx, master, rule='C01.9')
    # shared with C10: publication removes before it creates, and a restart
    # drops an instance recorded under several servers from all of them
    # (the model then holds it on none, both views agree)
    from . import c10
    with ctx.shared({'C10': 'C01.9', 'C09': 'C01.9'}):
        c10.run(ctx)
        # a server that is replaced gets the placement recorded under it back
        # (otherwise its records outlive the model's placement and the next
        # cycle records the instances a second time)
        c09._reload(ctx)


def _declared_capacity(ctx):
    """C01.5: the capacity the model works with is the declared one - when a
    server record is read again, the old server object is kept only if the
    fresh one is the same (is_same: partition and capacity) under the same
    parent; every other outcome replaces it (remove_server, then
    load_server)."""
    loader = ctx.index.get_class(K.LOADER, 'Loader')
    func = loader.methods.get('reload_server') if loader else None
    ctx.require(func is not None, 'Loader.reload_server')
    graph = ctx.cfg(func)
    fresh = [n for n in graph.nodes if n.kind == 'stmt' and
             isinstance(n.ast, ast.Assign) and
             isinstance(n.ast.value, ast.Call) and
             K.is_meth(n.ast.value, 'create_server') and
             isinstance(n.ast.targets[0], ast.Name)]
    ctx.require(len(fresh) == 1, 'the fresh server object of reload_server',
                rule='C01.5', func=func)
    new = fresh[0].ast.targets[0].id

    def same_record(atom):
        key = atom.key
        return key[0] == 'truth' and key[2] and \
            '.is_same(%s)' % new in key[1]

    def same_parent(atom):
        key = atom.key
        return key[0] == 'cmp' and key[1] == '==' and len(key[2]) == 2 and \
            any(t.endswith('.parent') for t, _c in key[2])

    def replaces(node):
        return any(K.is_meth(c, 'remove_server')
                   for c in C.node_calls(node))
    leak = K.unestablished_path(
        graph, [graph.exit],
        {'same record': same_record, 'same parent': same_parent},
        start=fresh[0], cut_node=replaces)
    ctx.ob('C01.5', func, fresh[0], leak is None,
           'a server whose record was read again keeps its old object only '
           'when the fresh one is the same under the same parent; otherwise '
           'it is replaced',
           path=K.describe(leak) if leak else None,
           construct='reload adopts the declared capacity')
    # ... and is_same compares what a placement depends on
    server = ctx.index.get_class(K.SCHED, 'Server')
    same = ctx.index.find_method(server, 'is_same') if server else None
    ctx.require(same is not None, 'Server.is_same', rule='C01.5')
    whole = K.expr_of_function(same.raw) or ast.Constant(value=None)
    text = N.txt(whole)
    # the capacity conjunct is an equality in every dimension (a server that
    # declares less in one dimension is a different server), as the repo's
    # own vector helpers define it
    vnz = N.Normaliser(N.VecHelpers(same.module))
    parts = whole.values if isinstance(whole, ast.BoolOp) and isinstance(
        whole.op, ast.And) else [whole]
    cap_eq = False
    for part in parts:
        if 'init_capacity' not in N.txt(part):
            continue
        try:
            key = vnz.atom(part).key
        except Exception:           # pylint: disable=broad-except
            continue
        if key[0] == 'vec' and key[1] == 'ALL' and key[2] == '==':
            cap_eq = True
        if key[0] == 'cmp' and key[1] == '==':
            cap_eq = True
    ctx.ob('C01.5', same, None,
           cap_eq and 'labels' in text,
           'is_same compares the partition labels and requires the declared '
           'capacity to be equal in every dimension (%s)' % text[:100],
           construct='is_same covers capacity')
    ctx.ob('C01.5', same, None, 'traits' in text,
           'is_same compares the traits of the two servers',
           construct='is_same covers traits')


def check(ctx):
    _model_exit(ctx)
    _declared_capacity(ctx)
    # C01.3 OWNER: what Server.remove gives back is what Server.put took -
    # the demand of an instance is set by its constructor and never
    # afterwards, in place or otherwise (the manifest of a placed instance
    # may be rewritten; what was subtracted from its server stays)
    from . import c04
    c04.fixed_after_construction(
        ctx, 'C01.3', 'demand',
        'the demand of an instance is set by its constructor only',
        'the demand of a (possibly placed) instance is changed: Server.remove '
        'gives back another amount than Server.put took')
    nz, server, _node_cls, put, remove, pred = _roles(ctx)
    _admission(ctx, nz, put, pred)
    _pair(ctx, put, remove)
    _owner(ctx, server, put, remove, detached_exception=False)
    _fresh_vectors(ctx, server)
    _single_placement(ctx)
    _conversion(ctx)
    _restore(ctx, server, put)
    _units(ctx)
    _reported(ctx)
    # shared with C05.2 / C04.1: an instance leaves the cell's table only
    # after it was taken off its server - whatever its flags say (a sticky
    # "evicted" mark does not mean it is off): otherwise the server keeps
    # listing it and its capacity is never given back
    from . import c05
    with ctx.shared({'C05': 'C01.3'}):
        c05._model_removal(ctx, removal_rule='C01.3')
    # shared with C09.4: the self check that finds an instance recorded under
    # two servers judges each copy against the model as it was recorded - the
    # copy the model names is the one that stays
    from . import c09
    with ctx.shared({'C09': 'C01.9'}):
        c09._self_check_repair(ctx)


_S = 'lib/python/treadmill/scheduler/__init__.py'
_L = 'lib/python/treadmill/scheduler/loader.py'
_U = 'lib/python/treadmill/utils.py'

MUTANTS = [
    ('admission-all-instead-of-any', [(_S, """        if _any_gt(app.demand, self.free_capacity):
            _LOGGER.info('Not enough free capacity: %s', self.free_capacity)
""", """        if _all_gt(app.demand, self.free_capacity):
            _LOGGER.info('Not enough free capacity: %s', self.free_capacity)
""")], 'C01.1'),
    ('admission-operands-swapped', [(_S, """        if _any_gt(app.demand, self.free_capacity):
            _LOGGER.info('Not enough""", """        if _any_gt(self.free_capacity, app.demand):
            _LOGGER.info('Not enough""")], 'C01.1'),
    ('helper-any-becomes-all', [(_S, """    return any(
        oper(ai, bi)
        for ai, bi in six.moves.zip(left, right)
    )
""", """    return all(
        oper(ai, bi)
        for ai, bi in six.moves.zip(left, right)
    )
""")], 'C01.1'),
    ('helper-gt-becomes-tolerance', [(_S, """    return _any(operator.gt, left, right)
""", """    return _any(lambda a, b: a > b and not np.isclose(a, b), left, right)
""")], 'C01.1'),
    ('capacity-check-dropped', [(_S, """        if _any_gt(app.demand, self.free_capacity):
            _LOGGER.info('Not enough free capacity: %s', self.free_capacity)
            return False

        return True
""", """        return True
""")], 'C01.1'),
    ('put-skips-constraints', [(_S, """        if not self.check_app_constraints(app):
            return False

        prev_capacity = self.free_capacity.copy()
""", """        prev_capacity = self.free_capacity.copy()
""")], 'C01.1'),
    ('put-no-capacity-decrement', [(_S, """        self.free_capacity -= app.demand
        self.apps[app.name] = app
""", """        self.apps[app.name] = app
""")], 'C01.2'),
    ('put-store-before-check', [(_S, """        if not self.check_app_constraints(app):
            return False

        prev_capacity = self.free_capacity.copy()
        self.free_capacity -= app.demand
        self.apps[app.name] = app
""", """        self.apps[app.name] = app
        if not self.check_app_constraints(app):
            return False

        prev_capacity = self.free_capacity.copy()
        self.free_capacity -= app.demand
""")], 'C01'),
    ('put-no-server-backlink', [(_S, """        self.increment_affinity([app.affinity.name])
        app.server = self.name
""", """        self.increment_affinity([app.affinity.name])
""")], 'C01.2'),
    ('remove-no-capacity-increment', [(_S, """        self.free_capacity += app.demand
        self.decrement_affinity([app.affinity.name])
""", """        self.decrement_affinity([app.affinity.name])
""")], 'C01.2'),
    ('remove-keeps-backlink', [(_S, """        app.server = None
        app.evicted = True
        app.unschedule = False
""", """        app.evicted = True
        app.unschedule = False
""")], 'C01.2'),
    ('loader-remove-server-clears-backlink-only', [(_L, """        server = self.servers[servername]
        server.remove_all()
        server.parent.remove_node(server)
""", """        server = self.servers[servername]
        for app in server.apps.values():
            app.server = None
        server.apps = dict()
        server.parent.remove_node(server)
""")], 'C01.3'),
    ('outside-writer-free-capacity', [(_L, """        current_server = self.servers[servername]
        has_apps = bool(current_server.apps)
""", """        current_server = self.servers[servername]
        has_apps = bool(current_server.apps)
        current_server.free_capacity = current_server.init_capacity.copy()
""")], 'C01.3'),
    ('double-placement-no-unplaced-assert', [(_S, """            if app.server:
                assert app.server in servers
                assert app.has_identity()
                continue

            assert app.server is None
""", """            if app.server and not app.evicted:
                assert app.server in servers
                assert app.has_identity()
                continue
""")], 'C01.4'),
    ('demand-not-through-resources', [(_L, """            demand = resources(manifest)
""", """            demand = [utils.megabytes(manifest.get('memory', 0)),
                      utils.cpu_units(manifest.get('cpu', 0)),
                      utils.kilobytes(manifest.get('disk', 0))]
""")], 'C01.5'),
    ('resources-disk-in-kilobytes', [(_L, """        'disk': utils.megabytes,
""", """        'disk': utils.kilobytes,
""")], 'C01.5'),
    ('restore-forgets-lease', [(_S, """        app.lease = lease
        app.placement_expiry = placement_expiry
""", """        app.placement_expiry = placement_expiry
""")], 'C01.6'),
    ('megabytes-decimal', [(_U, """    return kilobytes(value) // 1024
""", """    return kilobytes(value) // 1000
""")], 'C01.7'),
    ('size-default-decimal', [(_U, """        unit = 1024
        if size[-1] == 'B':
            unit = 1000
""", """        unit = 1000
        if size[-1] == 'B':
            unit = 1024
""")], 'C01.7'),
    ('cpu-percent-scaled', [(_U, """    if norm.endswith('%'):
        return int(norm[:-1])
""", """    if norm.endswith('%'):
        return int(norm[:-1]) // 100
""")], 'C01.7'),
]

MUTANTS += [
    ('remove-server-keeps-placements', [(_L, """        server = self.servers[servername]
        server.remove_all()
        server.parent.remove_node(server)
""", """        server = self.servers[servername]
        server.parent.remove_node(server)
""")], 'C01.8'),
    ('remove-server-stays-in-bucket', [(_L, """        server.remove_all()
        server.parent.remove_node(server)
""", """        server.remove_all()
""")], 'C01.8'),
]

REFACTORS = [
    ('admission-as-not-all-le', [(_S, """        if _any_gt(app.demand, self.free_capacity):
            _LOGGER.info('Not enough""", """        if not _all_le(app.demand, self.free_capacity):
            _LOGGER.info('Not enough""")]),
    ('admission-swapped-lt', [(_S, """        if _any_gt(app.demand, self.free_capacity):
            _LOGGER.info('Not enough""", """        if _any_lt(self.free_capacity, app.demand):
            _LOGGER.info('Not enough""")]),
    ('admission-numpy', [(_S, """        if _any_gt(app.demand, self.free_capacity):
            _LOGGER.info('Not enough""", """        if np.any(app.demand > self.free_capacity):
            _LOGGER.info('Not enough""")]),
    ('admission-return-expression', [(_S, """        if _any_gt(app.demand, self.free_capacity):
            _LOGGER.info('Not enough free capacity: %s', self.free_capacity)
            return False

        return True
""", """        return _all_le(app.demand, self.free_capacity)
""")]),
    ('put-capacity-as-assignment', [(_S, """        self.free_capacity -= app.demand
        self.apps[app.name] = app
""", """        self.apps[app.name] = app
        self.free_capacity = self.free_capacity - app.demand
""")]),
    ('put-effects-reordered', [(_S, """        self.increment_affinity([app.affinity.name])
        app.server = self.name
""", """        app.server = self.name
        self.increment_affinity([app.affinity.name])
""")]),
    ('remove-uses-pop', [(_S, """        app = self.apps[app_name]
        del self.apps[app_name]
""", """        app = self.apps.pop(app_name)
""")]),
    ('put-logging-added', [(_S, """        prev_capacity = self.free_capacity.copy()
        self.free_capacity -= app.demand
""", """        prev_capacity = self.free_capacity.copy()
        _LOGGER.debug('placing %s on %s', app.name, self.name)
        self.free_capacity -= app.demand
""")]),
    ('resources-tuple-order-literal', [(_L, """    return [parsers[k](data.get(k, 0)) for k in ['memory', 'cpu', 'disk']]
""", """    dims = ('memory', 'cpu', 'disk')
    return [parsers[k](data.get(k, 0)) for k in ('memory', 'cpu', 'disk')]
""")]),
]
