"""C09 - the published placement equals the scheduler's model after every
cycle (structural clauses)."""

import ast

from .. import cfg as C
from .. import norm as N
from . import common as K
from . import master_model as M
from . import sched_model as SM

EXPLANATION = """
C09.1 REGION (start-up reconciliation, evaluated over Venn regions of the
stored listing and the model): per server the delete loop ranges over exactly
stored - model and the create loop over at least model - stored plus the
placements changed by the start-up cycle; the server loop covers every server
that has stored records (its domain includes the listing of the placement
root).  C09.2 payload: every write of an instance's placement record stores
_placement_data(<that instance>) (the only named exception is the
read-modify-write of the expiry in Loader.restore_placement); the keys it
writes include every key the readers use, and each value is read from the
model's instance.  C09.3 change detection in reschedule: records are removed
exactly under `before and before != after`, created under `after`, and the
filter keeps tuples whose server or expiry changed.  C09.4 no unsnapshotted
modification: placement_expiry/identity of an instance are written only by
the scheduler's own routines; outside Cell.schedule() they are reached only
from Loader.restore_placement, where the value either comes from the stored
record or the record is rewritten/deleted on every path afterwards.  C09.5
removal: the record is deleted before the instance is forgotten, every
removal of an instance from the cell goes through the one overridable
funnel (Loader.remove_app), and /finished is written before /scheduled is
deleted.  C09.6 (thorough tier, whole package): instance placement records
are written or deleted only by the scheduler master/loader.
Added by the seeding rounds - C09.1 the start-up create set is model - stored
plus model & changed and the delete pass covers the stored root listing; C09.2
every write of an instance record stores _placement_data(instance) (one named
read-modify-write exception); C09.3 the publication loops range over exactly
the tuples whose server or expiry changed, however that list is built; C09.4
reload_server restores a replaced server's recorded placement unless a
snapshot taken before the removal says it held nothing; C09.5 instances leave
the cell only through Loader.remove_app. Fourth round: C09.2 a victim of the
eviction scan keeps its identity (it may return to the same server and expiry,
which publishes nothing).
Sweep: C09.3 both publication passes are never cut short; C09.1 the empty stand-in for the model side of the start-up difference is used only under the fact that the server is not a member of the cell.
Fifth round: C09.1 the start-up delete pass runs after the start-up cycle and its members are cell.members(); C09.2 an identity is taken only by the placement loop; C09.4 a server object leaves the model only after remove_all (shared with C01.8).
Sixth round: C09.4 the restart repair and the deletion of a server through the API (records dropped on every path, the servers event created after the deletions) are shared with C10.3; C09.5 the model instance is recognised through a .get lookup too.
Seventh round: C09.4 the self check judges each recorded copy against the model as it was recorded (the map the repair reads is not rewritten in the same iteration), and instances are taken off a server outside a cycle only by the named loader routines.
Eighth round: C09.3 a failed write or delete of a placement record escapes the publication routine (what one publication misses no later one repeats); C09.4 reload_server drops a server for good only when its record is gone or empty - every other removal is followed by load_server.
Ninth round: C09.4 every recorded instance a reload does not put back has its record deleted in the same iteration (shared with C11.4).
Does NOT decide equality of the whole stored tree with the whole model over
histories of ZooKeeper events.
"""

ASSUMPTIONS = [
    'backend.list(node) is the stored listing; set algebra of Python sets',
    'Cell.schedule() reports every instance whose server or expiry it '
    'changed (its before/after snapshot)',
]

MIN_OBLIGATIONS = 20
MIN_PER_RULE = {'C09.1': 3, 'C09.2': 6, 'C09.3': 4, 'C09.4': 4, 'C09.5': 4}


def _startup(ctx, master, rule='C09.1'):
    func = master.methods.get('init_schedule')
    ctx.require(func is not None, 'Master.init_schedule')
    graph, ops = M.record_ops(ctx, func)
    dels = [(n, r) for n, op, r, _c in ops if op == 'delete']
    puts = [(n, r) for n, op, r, _c in ops if op in ('put', 'update')]
    ctx.require(dels and puts, 'record delete and put in init_schedule',
        rule=rule)

    def is_stored(expr):
        txt = N.txt(expr)
        return 'backend.list(' in txt and 'PLACEMENT' not in txt

    def is_model(expr):
        txt = N.txt(expr)
        return '.apps' in txt and 'backend' not in txt

    cycle = _cycle_result(func)

    def is_changed(expr):
        if isinstance(expr, (ast.SetComp, ast.ListComp, ast.GeneratorExp)):
            gen = expr.generators[0]
            return N.txt(gen.iter) in cycle and len(gen.ifs) == 1
        return False
    sx = K.FlowSetExpr(func, graph, {'stored': is_stored, 'model': is_model,
                                     'changed': is_changed})
    want_del = sx.expect(lambda e: e['stored'] and not e['model'])
    for node, rec in dels:
        loop = K.enclosing_for(graph, node, rec[1])
        ctx.require(loop is not None, 'loop of the start-up delete', rule=rule)
        tabs = sx.tables(loop.ast.iter, loop)
        ok = tabs is not None and all(
            t and all(want_del[r] == v for r, v in t.items()) for t in tabs)
        ctx.ob(rule, func, loop, ok,
               'start-up deletes exactly stored - model: %s' % (
                   [K.show_table(t) for t in tabs] if tabs else
                   'not a recognised set expression'),
               construct='start-up delete domain')
    # the model the stored records are compared with is the model after the
    # start-up cycle: what that cycle moves or un-places must lose its old
    # record in the delete pass (the create pass only adds)
    cycles = [n for n, c in K.nodes_calling(
        graph, lambda c: K.is_meth(c, 'schedule') and
        (K.recv_text(c) or '').endswith('cell'))]
    for node, _rec in dels:
        ctx.ob(rule, func, node,
               bool(cycles) and K.guarded_by(
                   graph, node, lambda e: e.src in cycles and
                   e.kind != 'exc'),
               'the start-up delete pass runs after the start-up cycle',
               construct='start-up cycle before the delete pass')
    # where the "model" side of the difference is taken to be empty, the
    # server is not a member of the cell (for a member an empty stand-in
    # deletes every record it has, and the create pass, which trusts the
    # listing taken before, does not write them again)
    members = _is_members(func)
    nzf = N.Normaliser()
    facts = None
    for node, rec in dels:
        loop = K.enclosing_for(graph, node, rec[1])
        if loop is None:
            continue
        for name in sorted(N.mentions(loop.ast.iter)):
            vals = K.def_sites(graph, sx.rdefs, loop, name)
            if len(vals) < 2:
                continue
            for site, val in vals:
                empty = isinstance(val, ast.Call) and K.callee_text(val) in (
                    'set', 'frozenset') and not val.args
                if not empty:
                    continue
                if facts is None:
                    facts = N.must_facts(graph, nzf)
                have = N.raw_only(facts[site])
                ok = any(f.key[0] == 'in' and not f.key[3] and
                         _names_members(func, f.key[2], members)
                         for f in have)
                ctx.ob(rule, func, site, ok,
                       'an empty model side is used only for a server that '
                       'is not a member of the cell (facts: %s)'
                       % sorted(N.show(f) for f in have),
                       construct='empty model side only for non-members')
    for node, rec in puts:
        loop = K.enclosing_for(graph, node, rec[1])
        ctx.require(loop is not None, 'loop of the start-up create', rule=rule)
        tabs = sx.tables(loop.ast.iter, loop)
        ok = tabs is not None and {'model', 'stored', 'changed'} <= \
            (sx.used_all or set())
        if ok:
            for tab in tabs:
                for region, val in tab.items():
                    if 'model' in region and 'stored' not in region and \
                            not val:
                        ok = False      # model - stored must be created
                    if 'model' in region and 'changed' in region and \
                            not val:
                        ok = False      # changed placements are rewritten
                    if 'model' not in region and val:
                        ok = False      # nothing outside the model
        ctx.ob(rule, func, loop, ok,
               'start-up creates model - stored and re-writes placements '
               'changed by the start-up cycle, nothing outside the model: '
               '%s' % ([K.show_table(t) for t in tabs] if tabs else
                       'not a recognised set expression'),
               construct='start-up create domain')
    # the "changed" set is the server-or-expiry filter over schedule()'s
    # result
    for sub in K.walk_no_nested(func.node):
        if is_changed(sub):
            _change_filter(ctx, func, sub, rule)
    # server loop of the delete pass covers the stored root listing
    for node, rec in dels:
        inner = K.enclosing_for(graph, node, rec[1])
        outer = None
        for cand in graph.nodes:
            if cand.kind == 'for' and cand is not inner and \
                    inner in K.loop_body_nodes(cand):
                outer = cand
        ctx.require(outer is not None, 'server loop of the start-up delete',
            rule=rule)

        def is_root(expr):
            return 'backend.list(' in N.txt(expr) and \
                'PLACEMENT' in N.txt(expr)

        sy = K.FlowSetExpr(func, graph, {'root': is_root,
                                         'members': _is_members(func)})
        dom = outer.ast.iter
        if isinstance(dom, ast.Call) and K.is_meth(dom, 'items'):
            dom = K.recv(dom)
        tabs = sy.tables(dom, outer)
        ok = tabs is not None and 'root' in (sy.used_all or set()) and \
            all(all(val for region, val in t.items() if 'root' in region)
                for t in tabs)
        ctx.ob(rule, func, outer, ok,
               'the reconciliation visits every server that has stored '
               'records (domain includes the listing of the placement '
               'root): %s' % ([K.show_table(t) for t in tabs] if tabs else
                              N.txt(outer.ast.iter)),
               construct='start-up server domain')
    return func


def _is_members(func):
    defs = M.local_defs(func)

    def recog(expr):
        txt = N.txt(expr)
        # the servers the scheduler places on: the members of the cell
        # tree (Loader.servers may still hold a server whose bucket left
        # the cell, with the instances it had)
        if txt in ('self.cell.members()', 'self.cell.members().items()'):
            return True
        if isinstance(expr, ast.Name) and expr.id in defs and all(
                N.txt(v) == 'self.cell.members()' for v in defs[expr.id]):
            return True
        return False
    return recog


def _names_members(func, text, members):
    try:
        return members(ast.parse(text, mode='eval').body)
    except SyntaxError:
        return False


def _cycle_result(func):
    """Locals bound to the result of this cycle (self.cell.schedule())."""
    out = set()
    for sub in K.walk_no_nested(func.node):
        if isinstance(sub, ast.Assign) and len(sub.targets) == 1 and \
                isinstance(sub.targets[0], ast.Name) and \
                isinstance(sub.value, ast.Call) and \
                K.callee_text(sub.value).endswith('cell.schedule'):
            out.add(sub.targets[0].id)
    return out or {'placement'}


def _change_filter(ctx, func, comp, rule):
    nz = N.Normaliser()
    cond = comp.generators[0].ifs[0]
    form = nz.formula(cond)
    atoms = set()
    if form[0] == 'or':
        atoms = set(p[1] for p in form[1] if p[0] == 'atom')
    target = comp.generators[0].target
    names = [N.txt(e) for e in target.elts] if isinstance(
        target, ast.Tuple) and len(target.elts) == 5 else \
        ['app', 'before', 'exp_before', 'after', 'exp_after']
    if isinstance(target, ast.Name):
        # the tuple is kept whole and read by position
        names = ['%s[%d]' % (target.id, i) for i in range(5)]

    def pos(i):
        return ast.parse(names[i], mode='eval').body
    want = {
        N.cmp_atom(pos(1), '!=', pos(3)),
        N.cmp_atom(pos(2), '!=', pos(4)),
    }
    ctx.ob(rule, func, comp, form[0] == 'or' and atoms == want,
           'the change filter keeps tuples whose server or expiry changed: '
           '%s' % N.txt(cond), construct='change filter in %s' % func.name)


def _changed_list(ctx, func, name, rule, what):
    """The list the publication loops range over holds every tuple of this
    cycle's result whose server or expiry changed (judged on how the list
    is built, whatever the spelling: comprehension, filter loop with
    continue, nested ifs)."""
    parts = K.list_contributions(func, name)
    construct = 'change filter in %s' % func.name

    def bad(why):
        ctx.fail(rule, func, None,
                 'publication ranges over the changed placements (the '
                 'filtered result of this cycle): %s' % why,
                 construct=what)

    if len(parts) != 1 or 'other' in parts[0]:
        return bad('%s is not built by one pass over the result' % name)
    part = parts[0]
    doms = part['domains']
    if len(doms) != 1 or N.txt(doms[0][1]) not in _cycle_result(func):
        return bad('%s does not range over the result of this cycle' % name)
    target = doms[0][0]
    names, whole = None, set()
    if isinstance(target, ast.Tuple) and len(target.elts) == 5:
        names = [N.txt(e) for e in target.elts]
    elif isinstance(target, ast.Name):
        whole = {target.id, 'tuple(%s)' % target.id}
        for sub in K.walk_no_nested(func.node):
            if isinstance(sub, ast.Assign) and \
                    N.txt(sub.value) == target.id and \
                    isinstance(sub.targets[0], ast.Tuple) and \
                    len(sub.targets[0].elts) == 5:
                names = [N.txt(e) for e in sub.targets[0].elts]
        if names is None:
            # kept whole and read by position
            names = ['%s[%d]' % (target.id, i) for i in range(5)]
    if names is None:
        return bad('the five positions of a placement tuple are not named')
    elt = part['elt']
    ok_elt = elt is None or N.txt(elt) in whole or (
        isinstance(elt, ast.Tuple) and [N.txt(e) for e in elt.elts] == names)
    if not ok_elt:
        return bad('the element kept is not the whole tuple: %s' % N.txt(elt))
    ctx.ob(rule, func, None, True,
           'publication ranges over the changed placements (the filtered '
           'result of this cycle)', construct=what)
    tests = []
    for test, outcome in part['conds']:
        if test is None:
            tests = None
            break
        tests.append(test if outcome else ast.UnaryOp(op=ast.Not(),
                                                      operand=test))
    nz = N.Normaliser()
    atoms, shape = set(), None
    if tests:
        expr = tests[0] if len(tests) == 1 else ast.BoolOp(op=ast.And(),
                                                           values=tests)
        form = nz.formula(expr)
        shape = form[0]
        if form[0] == 'or':
            atoms = set(p[1] for p in form[1] if p[0] == 'atom')
    def pos(i):
        return ast.parse(names[i], mode='eval').body
    want = {
        N.cmp_atom(pos(1), '!=', pos(3)),
        N.cmp_atom(pos(2), '!=', pos(4)),
    }
    ctx.ob(rule, func, part['node'], shape == 'or' and atoms == want,
           'the change filter keeps tuples whose server or expiry changed: '
           '%s' % (' and '.join(N.txt(t) for t in tests) if tests
                   else 'not a plain condition'), construct=construct)


def _payload(ctx, master):
    index = ctx.index
    pdata = master.methods.get('_placement_data')
    ctx.require(pdata is not None, 'Master._placement_data')
    written = {}
    param = pdata.params()[1]
    defs = M.local_defs(pdata)
    for sub in K.walk_no_nested(pdata.node):
        if isinstance(sub, ast.Return) and isinstance(sub.value, ast.Dict):
            for key, val in zip(sub.value.keys, sub.value.values):
                src = K.rtxt(pdata, val)
                written[key.value] = (src, sub)
    ctx.require(written, 'record dictionary of _placement_data', rule='C09.2')
    model = 'self.cell.apps[%s]' % param
    expect = {'identity': '%s.identity' % model,
              'expires': '%s.placement_expiry' % model}
    for key, src in sorted(expect.items()):
        have = written.get(key, (None, None))
        ctx.ob('C09.2', pdata, have[1], have[0] == src,
               "record key %r is read from the model's instance: %s" % (
                   key, have[0]), construct='record key %s' % key)
    cnt = written.get('identity_count', (None, None))
    # the value stored under the key, through the local(s) it is kept in
    cval = None
    for sub in K.walk_no_nested(pdata.node):
        if isinstance(sub, ast.Return) and isinstance(sub.value, ast.Dict):
            for key, val in zip(sub.value.keys, sub.value.values):
                if getattr(key, 'value', None) == 'identity_count':
                    cval = val
    cdefs = M.leaf_defs(defs, cval.id) if isinstance(cval, ast.Name) \
        else ([cval] if cval is not None else [])
    leaves = []
    for v in cdefs:
        v = K.rexpr(pdata, v)
        # the count or nothing, chosen by a conditional expression
        leaves.extend([v.body, v.orelse] if isinstance(v, ast.IfExp)
                      else [v])
    ok = cnt[0] is not None and any(
        K.rtxt(pdata, v).endswith('identity_group_ref.count')
        for v in leaves)
    ctx.ob('C09.2', pdata, cnt[1], ok,
           "record key 'identity_count' is the group's count",
           construct='record key identity_count')
    # readers
    loader = index.get_class(K.LOADER, 'Loader')
    rp = loader.methods.get('restore_placement')
    ctx.require(rp is not None, 'Loader.restore_placement')
    read = set()
    from . import c11
    recs = c11._roles(rp)['record']     # the stored record, by definition
    for sub in K.walk_no_nested(rp.node):
        if isinstance(sub, ast.Call) and K.is_meth(sub, 'get') and \
                K.recv_text(sub) in recs and sub.args and \
                isinstance(sub.args[0], ast.Constant):
            read.add(sub.args[0].value)
        if isinstance(sub, ast.Subscript) and N.txt(sub.value) in recs \
                and isinstance(sub.slice, ast.Constant) and \
                isinstance(sub.ctx, ast.Load):
            read.add(sub.slice.value)
    ctx.ob('C09.2', rp, None, bool(read) and read <= set(written),
           'keys read at restart %s are written by the publisher %s' % (
               sorted(read), sorted(written)),
           construct='reader keys of restore_placement')
    em = index.module('treadmill.eventmgr', required=False)
    if em is not None:
        src = em.source
        need = [k for k in ('identity', 'expires', 'identity_count')
                if "'%s'" % k in src]
        ctx.ob('C09.2', 'treadmill.eventmgr', None,
               set(need) <= set(written),
               'keys named by the node agent %s are written' % need,
               construct='reader keys of eventmgr', file=em.rel)
    # every record write stores _placement_data(instance)
    writes = 0
    for cls in (master, loader):
        for func in cls.live_methods():
            graph, ops = M.record_ops(ctx, func)
            fdefs = M.local_defs(func)
            for node, op, rec, call in ops:
                if op == 'delete':
                    continue
                writes += 1
                data = call.args[1] if len(call.args) > 1 else \
                    K.kwarg(call, 'value') or K.kwarg(call, 'data')
                src = data
                if isinstance(data, ast.Name) and data.id in fdefs and \
                        len(fdefs[data.id]) == 1:
                    src = fdefs[data.id][0]
                stxt = N.txt(src) if src is not None else ''
                ok = op == 'put' and \
                    stxt == 'self._placement_data(%s)' % rec[1]
                detail = 'record of %s written with %s' % (rec[1], stxt)
                if not ok and func.qualname == 'Loader.restore_placement':
                    ok, detail = _rmw_exception(ctx, func, graph, node,
                                                call)
                ctx.ob('C09.2', func, node, ok, detail)
    ctx.require(writes >= 2, 'writes of instance placement records',
        rule='C09.2')


def _rmw_exception(ctx, func, graph, node, call):
    """Loader.restore_placement: data read from the same node, only the
    expiry replaced by the model's value."""
    data = call.args[1] if len(call.args) > 1 else None
    path = call.args[0]
    if not isinstance(data, ast.Name):
        return False, 'record written with something else than the stored '\
                      'record'
    reads = [s for s in K.walk_no_nested(func.node)
             if isinstance(s, ast.Assign) and
             isinstance(s.targets[0], ast.Tuple) and
             N.txt(s.targets[0].elts[0]) == data.id and
             isinstance(s.value, ast.Call) and
             K.is_meth(s.value, 'get_with_metadata') and
             N.txt(s.value.args[0]) == N.txt(path)]
    mods = [s for s in K.walk_no_nested(func.node)
            if isinstance(s, ast.Assign) and
            isinstance(s.targets[0], ast.Subscript) and
            N.txt(s.targets[0].value) == data.id]
    ok = len(reads) == 1 and all(
        isinstance(m.targets[0].slice, ast.Constant) and
        m.targets[0].slice.value == 'expires' and
        N.txt(m.value).endswith('.placement_expiry') for m in mods) and \
        bool(mods)
    return ok, 'read-modify-write of the stored record: only expires <- ' \
               "the model's placement_expiry"


def _reschedule(ctx, master):
    func = master.methods.get('reschedule')
    ctx.require(func is not None, 'Master.reschedule')
    nz = N.Normaliser()
    graph, ops = M.record_ops(ctx, func)
    facts = N.must_facts(graph, nz)
    domains = {}
    seen_loops = set()
    for node, op, rec, _call in ops:
        loop = K.enclosing_for(graph, node)
        names = N.for_targets(loop) if loop is not None else set()
        bname, aname = M.before_after(loop)
        want_del = {
            N.Atom(('truth', bname, True)),
            N.cmp_atom(ast.Name(id=bname), '!=', ast.Name(id=aname)),
        }
        mine = set(f for f in N.raw_only(facts[node])
                   if f.mentions & names)
        if op == 'delete':
            ctx.ob('C09.3', func, node, mine == want_del,
                   'old record removed exactly under `before and before != '
                   'after` (facts: %s)' % sorted(N.show(f) for f in mine))
            ctx.ob('C09.3', func, node, rec[0] == bname,
                   'the record removed is the one under the old server',
                   construct='delete path server = before')
        else:
            ok = mine == {N.Atom(('truth', aname, True))}
            ctx.ob('C09.3', func, node, ok,
                   'new record created exactly under `after` (facts: %s)' %
                   sorted(N.show(f) for f in mine))
            ctx.ob('C09.3', func, node, rec[0] == aname,
                   'the record is created under the new server',
                   construct='put path server = after')
        if loop is not None:
            domains.setdefault(N.txt(loop.ast.iter), []).append(op)
            if id(loop) not in seen_loops:
                seen_loops.add(id(loop))
                # every changed placement is published: a tuple that needs
                # no delete (or no create) does not end the pass
                K.exhaustive_loop(ctx, 'C09.3', func, loop,
                                  'publication pass (%s)' % op)
    for dom, opsof in sorted(domains.items()):
        _changed_list(ctx, func, dom, 'C09.3',
                      '%s loop domain' % '/'.join(sorted(set(opsof))))
    ctx.ob('C09.3', func, None, _cycle_result(func) != {'placement'} or
           'placement = self.cell.schedule()' in ast.unparse(func.node),
           'the change list is the result of this cycle',
           construct='placement = self.cell.schedule()')


_PAYLOAD_ATTRS = ('placement_expiry', 'identity')


def _unsnapshotted(ctx, master):
    index = ctx.index
    mods = [index.module(K.SCHED), index.module(K.LOADER),
            index.module(K.MASTER)]
    if ctx.tier in ('quick', 'thorough'):   # whole-package clause, cheap enough for every run
        mods = [m for m in index.modules.values()
                if 'treadmill.scheduler' in m.imports.values() or
                m.name.startswith('treadmill.scheduler')]
    allowed = {
        'Application.__init__', 'Application.acquire_identity',
        'Application.release_identity', 'Application.force_set_identity',
        'Server.put', 'Server.restore', 'Server.renew', 'Server.remove',
        'Cell._fix_invalid_identities',
    }
    count = 0
    for mod in mods:
        for func in mod.live_functions():
            for sub in K.walk_no_nested(func.node):
                tgts = []
                if isinstance(sub, ast.Assign):
                    tgts = sub.targets
                elif isinstance(sub, ast.AugAssign):
                    tgts = [sub.target]
                for tgt in tgts:
                    if isinstance(tgt, ast.Attribute) and \
                            tgt.attr in _PAYLOAD_ATTRS and not (
                                K.name_is(tgt.value, 'self') and
                                func.cls is not None and
                                func.cls.name not in ('Application',)):
                        count += 1
                        ctx.ob('C09.4', func, sub,
                               func.qualname in allowed,
                               'published attribute %s is written by a '
                               'scheduler routine whose effect a cycle '
                               'snapshots' % tgt.attr
                               if func.qualname in allowed else
                               'published attribute %s.%s is written '
                               'outside the routines the publication '
                               'accounts for' % (N.txt(tgt.value),
                                                 tgt.attr))
    ctx.require(count >= 8, 'writers of placement_expiry/identity',
        rule='C09.4')
    writer_callers(ctx, master)


def writer_callers(ctx, master, rule='C09.4'):
    """Callers of the placement writers outside Cell: only
    Loader.restore_placement, which keeps record and model together."""
    index = ctx.index
    loader = index.get_class(K.LOADER, 'Loader')
    for cls in (loader, master):
        for func in cls.live_methods():
            graph = None
            for sub in K.walk_no_nested(func.node):
                if not (isinstance(sub, ast.Call) and K.is_meth(
                        sub, 'put', 'restore', 'renew',
                        'force_set_identity', 'release_identity',
                        'acquire_identity')):
                    continue
                rcv = K.recv_text(sub) or ''
                if rcv.endswith('backend'):
                    continue
                if not sub.args and sub.func.attr in ('put', 'restore',
                                                      'renew'):
                    continue
                graph = graph or ctx.cfg(func)
                site = [n for n in graph.nodes
                        if any(c is sub for c in C.node_calls(n))]
                if not site:
                    continue
                site = site[0]
                if func.qualname != 'Loader.restore_placement':
                    ctx.fail(rule, func, site,
                             'a published attribute of an instance is '
                             'changed outside a scheduling cycle and '
                             'outside restore_placement; no publication '
                             'sees the change')
                    continue
                _check_restore_site(ctx, func, graph, site, sub, rule)


def unplacement_callers(ctx, master, rule='C09.4'):
    """Instances are taken off a server outside a scheduling cycle only by
    the three routines that deal with the records themselves: remove_server
    (the API deletes the records of a deleted server; a replaced one gets
    them restored), restore_placement (re-reads the records right after)
    and the duplicate repair of restore_placements (deletes them).  Any
    other caller un-places before the before-snapshot of the next cycle:
    nothing reports the change and the record stays."""
    index = ctx.index
    loader = index.get_class(K.LOADER, 'Loader')
    allowed = ('Loader.remove_server', 'Loader.restore_placement',
               'Loader.restore_placements')
    seen = 0
    for cls in (loader, master):
        for func in cls.live_methods():
            for call in K.calls(func.node):
                if not K.is_meth(call, 'remove_all', 'remove'):
                    continue
                rcv = K.recv_text(call) or ''
                if K.is_meth(call, 'remove') and not (
                        'server' in rcv.lower() and call.args and
                        not rcv.endswith('partitions')):
                    continue
                if 'partition' in rcv or 'backend' in rcv:
                    continue
                seen += 1
                ctx.ob(rule, func, call, func.qualname in allowed,
                       'instances are taken off a server outside a cycle '
                       'only by %s' % ', '.join(allowed),
                       construct='un-placement outside a cycle')
    ctx.require(seen >= 3, 'un-placement calls of the loader (found %d)'
                % seen, rule=rule)


def _reload(ctx):
    """Replacing a server un-places its instances outside a cycle (the next
    publication sees before == None and leaves their records): the
    placement must be restored from the records, decided on what the
    server held BEFORE it was removed."""
    loader = ctx.index.get_class(K.LOADER, 'Loader')
    func = loader.methods.get('reload_server')
    ctx.require(func is not None, 'Loader.reload_server')
    graph = ctx.cfg(func)
    nz = N.Normaliser()
    removes = [n for n, _c in K.nodes_calling(
        graph, lambda c: K.is_meth(c, 'remove_server'))]
    loads = [n for n, _c in K.nodes_calling(
        graph, lambda c: K.is_meth(c, 'load_server'))]
    pairs = [(r, l) for r in removes for l in loads
             if K.find_path(r, [l], follow_exc=False) is not None]
    ctx.require(pairs, 'remove_server followed by load_server in '
                       'reload_server', rule='C09.4')
    defs = M.local_defs(func)
    # a server is dropped for good - its instances forgotten by the model
    # while their records stay - only when its record is gone (the handler
    # of the read) or holds nothing (it never reported a capacity, so it
    # never held an instance); every other removal is the first half of a
    # replacement.  Anything else ("its parent bucket is unknown") makes the
    # next cycle place instances that are still recorded on the dropped
    # server: a second record.
    facts = N.must_facts(graph, nz)
    record = set(name for name, vals in defs.items() if any(
        isinstance(v, ast.Call) and K.is_meth(v, 'get', 'get_default') and
        (K.recv_text(v) or '').endswith('backend') for v in vals))
    for rnode in removes:
        replaced = any(r is rnode for r, _l in pairs) and K.find_path(
            rnode, [graph.exit], cut_node=lambda n: n in loads,
            follow_exc=False) is None
        in_handler = K.guarded_by(graph, rnode, lambda e: (
            e.src.kind == 'handler' and 'ObjectNotFoundError' in
            N.txt(e.src.ast.type) if e.src.kind == 'handler' and
            e.src.ast.type is not None else False))
        empty = any(f.key[0] == 'truth' and not f.key[2] and
                    f.key[1] in record for f in facts[rnode])
        ctx.ob('C09.4', func, rnode, replaced or in_handler or empty,
               'reload_server drops a server for good only when its record '
               'is gone or empty; otherwise the removal is followed by '
               'load_server (a replacement)',
               construct='reload: server dropped only without a record')

    def restores(node):
        return any(K.is_meth(c, 'restore_placement')
                   for c in C.node_calls(node))
    for rnode, lnode in pairs:
        def snapshot_says_empty(edge, rnode=rnode):
            # falsy outcome of a local computed from <server>.apps before
            # the removal
            for atom in nz.facts_of_edge(edge):
                if atom.raw is not None:
                    continue
                key = atom.key
                name = None
                if key[0] == 'truth' and not key[2]:
                    name = key[1]
                if key[0] == 'cmp' and len(key[2]) == 1:
                    name = key[2][0][0]
                if not (name and name.isidentifier() and
                        len(defs.get(name, [])) == 1 and
                        '.apps' in N.txt(defs[name][0])):
                    continue
                dnodes = [n for n in graph.nodes if n.kind == 'stmt' and
                          isinstance(n.ast, ast.Assign) and
                          n.ast.value is defs[name][0]]
                if dnodes and K.guarded_by(
                        graph, rnode, lambda e, d=dnodes[0]: e.src is d):
                    return True
            return False
        path = K.find_path(lnode, [graph.exit], cut_node=restores,
                           cut_edge=snapshot_says_empty, follow_exc=False)
        ctx.ob('C09.4', func, lnode, path is None,
               'a replaced server gets its recorded placement restored '
               'unless it held no instance before it was removed',
               path=K.describe(path) if path else None,
               construct='reload: restore after replace')


def _check_restore_site(ctx, func, graph, site, call, rule='C09.4'):
    defs = M.local_defs(func)
    meth = call.func.attr
    if meth == 'restore':
        val = call.args[1] if len(call.args) > 1 else None
        src = N.txt(defs.get(N.txt(val), [val])[0]) if val is not None \
            else ''
        if ".get('expires'" not in src and val is not None:
            src = K.rtxt(func, val)
        ctx.ob(rule, func, site, ".get('expires'" in src or
               "['expires']" in src,
               'verbatim restore: the expiry comes from the stored record '
               '(%s)' % src)
    elif meth == 'force_set_identity':
        val = call.args[0]
        src = N.txt(defs.get(N.txt(val), [val])[0])
        if ".get('identity'" not in src:
            src = K.rtxt(func, val)
        ctx.ob(rule, func, site, ".get('identity'" in src or
               "['identity']" in src,
               'forced identity comes from the stored record (%s)' % src)
    elif meth == 'put':
        # lease re-evaluated: the record must be rewritten or deleted on
        # every path to the end of the iteration
        loop = K.enclosing_for(graph, site)

        def republished(node):
            for c in C.node_calls(node):
                if K.is_meth(c, 'put', 'delete') and \
                        (K.recv_text(c) or '').endswith('backend') and \
                        c.args and M.is_record_path(c.args[0],
                                                    defs) is not None:
                    return True
            return False
        path = K.find_path_cp(graph, site, [loop, graph.exit],
                              cut_node=republished, follow_exc=False)
        ctx.ob(rule, func, site, path is None,
               'a placement restored with a re-evaluated lease rewrites '
               '(or deletes) its record before the next publication',
               path=K.describe(path) if path else None)


def _removal(ctx, master):
    index = ctx.index
    nz = N.Normaliser()
    func = master.methods.get('remove_app')
    ctx.require(func is not None, 'Master.remove_app')
    graph, ops = M.record_ops(ctx, func)
    dels = [n for n, op, _r, _c in ops if op == 'delete']
    sups = [n for n, c in K.nodes_calling(
        graph, lambda c: K.is_meth(c, 'remove_app') and
        'super' in N.txt(c.func))]
    ctx.require(sups, 'super().remove_app in Master.remove_app', rule='C09.5')
    # the model's instance, whatever the local is called
    models = ('self.cell.apps[%s]' % func.params()[1],
              'self.cell.apps.get(%s)' % func.params()[1])
    enz = N.Normaliser(env=K.func_env(func))

    def unplaced(edge):
        return any(a.key[0] == 'truth' and not a.key[2] and
                   a.key[1] in ['%s.server' % m for m in models]
                   for a in enz.facts_of_edge(edge))
    for node in sups:
        ok = bool(dels) and K.guarded_by(
            graph, node, lambda e: e.src in dels or unplaced(e))
        ctx.ob('C09.5', func, node, ok,
               'the record is deleted (when placed) before the instance is '
               'forgotten')
    for node, op, rec, _c in ops:
        if op == 'delete':
            ctx.ob('C09.5', func, node, rec[0] == 'app.server' or
                   K.rtxt(func, _c.args[0].args[0] if isinstance(
                       _c.args[0], ast.Call) and _c.args[0].args
                       else _c.args[0]) in ['%s.server' % m for m in models],
                   'the record deleted is the one under the current server',
                   construct='delete path server = app.server')
    # single funnel
    loader = index.get_class(K.LOADER, 'Loader')
    n = 0
    for cls in (loader, master):
        for f in cls.live_methods():
            for sub in K.walk_no_nested(f.node):
                if isinstance(sub, ast.Call) and K.is_meth(
                        sub, 'remove_app') and \
                        K.recv_text(sub) == 'self.cell':
                    n += 1
                    ctx.ob('C09.5', f, sub,
                           f.qualname == 'Loader.remove_app',
                           'instances leave the cell only through '
                           'Loader.remove_app (overridden by the master to '
                           'delete the record)')
    ctx.require(n >= 1, 'call of Cell.remove_app', rule='C09.5')
    # finished before scheduled is deleted
    for cls in (loader, master):
        for f in cls.live_methods():
            graph = None
            for sub in K.walk_no_nested(f.node):
                if isinstance(sub, ast.Call) and K.is_meth(sub, 'delete') \
                        and sub.args and 'path.scheduled(' in K.rtxt(
                            f, sub.args[0]):
                    graph = graph or ctx.cfg(f)
                    site = [x for x in graph.nodes if any(
                        c is sub for c in C.node_calls(x))][0]
                    ok = K.guarded_by(graph, site, lambda e, f=f: any(
                        K.is_meth(c, 'put') and c.args and
                        'path.finished(' in K.rtxt(f, c.args[0])
                        for c in C.node_calls(e.src)))
                    ctx.ob('C09.5', f, site, ok,
                           '/finished is written before /scheduled is '
                           'deleted')


def _record_owner(ctx):
    """Thorough tier: over the whole package, instance placement records
    (z.path.placement(<server>, <instance>)) are written or deleted only by
    the master and the loader."""
    index = ctx.index
    index.load_all()
    writers = ('put', 'update', 'delete', 'create', 'set', 'ensure_deleted',
               'ensure_exists')
    inside = 0
    for mod in index.modules.values():
        for func in mod.live_functions():
            defs = M.local_defs(func)
            for sub in K.walk_no_nested(func.node):
                if not isinstance(sub, ast.Call):
                    continue
                name = K.callee_text(sub).split('.')[-1]
                if name not in writers:
                    continue
                hit = None
                for arg in sub.args[:3]:
                    rec = M.is_record_path(arg, defs)
                    if rec is not None:
                        hit = rec
                if hit is None:
                    continue
                ok = mod.name in (K.MASTER, K.LOADER)
                inside += ok
                ctx.ob('C09.6', func, sub, ok,
                       'an instance placement record is written/deleted '
                       'only by the scheduler master/loader' if ok else
                       'an instance placement record is written/deleted '
                       'outside the master/loader: the publication rules do '
                       'not see it')
    ctx.require(inside >= 5, 'record writers inside master/loader (positive '
                             'example, found %d)' % inside, rule='C09.6')


def _identity_with_placement(ctx):
    """C09.2: the change list of a cycle is (server, expiry) before and
    after - an identity is published again only when one of them changed.
    So nothing may change the identity of an instance that can end the cycle
    where it was: a victim of the eviction scan is recorded for restore (same
    server, same expiry) and must keep its identity meanwhile."""
    from .sched_model import PlacementLoop
    loop = PlacementLoop(ctx)
    graph, func = loop.graph, loop.func
    scans = [n for n in loop.body() if n.kind == 'for' and n is not loop.head]
    ctx.require(scans, 'victim scan in the placement loop', rule='C09.2')
    for scan in scans:
        victim = sorted(N.for_targets(scan))[0]
        released = [n for n in K.loop_body_nodes(scan) if any(
            K.is_meth(c, 'release_identity') and K.recv_text(c) == victim
            for c in C.node_calls(n))]
        ctx.ob('C09.2', func, released[0] if released else scan,
               not released,
               'a victim recorded for restore keeps its identity (it may '
               'return to the same server with the same expiry, which '
               'publishes nothing)', construct='victim identity kept')
    # ... and a new identity is taken only where a placement with a fresh
    # expiry follows (the placement loop)
    from .sched_model import acquire_owner
    acquire_owner(ctx, 'C09.2')


def _self_check_repair(ctx):
    """C09.4: the run-time self check that finds an instance recorded under
    two servers judges both copies against the model: the copy seen first is
    compared as it was recorded - the entry of the first-seen map is not
    overwritten in the iteration that goes on to judge it (after such a
    store the second test compares the model with the copy just seen, and a
    stale first copy is never deleted)."""
    loader = ctx.index.get_class(K.LOADER, 'Loader')
    func = loader.methods.get('check_placement_integrity')
    if func is None:
        return
    graph, ops = M.record_ops(ctx, func)
    dels = [n for n, op, _r, _c in ops if op == 'delete']
    if not dels:
        return
    maps = set()
    for node in graph.nodes:
        if node.kind == 'stmt' and isinstance(node.ast, ast.Assign) and \
                isinstance(node.ast.targets[0], ast.Subscript) and \
                isinstance(node.ast.targets[0].value, ast.Name):
            maps.add(node.ast.targets[0].value.id)
    for dnode in dels:
        loop = K.enclosing_for(graph, dnode)
        if loop is None:
            continue
        # stores into a map the delete condition reads, made in the same
        # iteration before the delete
        reads = set()
        for ctl in graph.nodes:
            if ctl.kind == 'test' and ctl.ast is not None and \
                    dnode in K.cut_reach(graph, ctl, cut_node=lambda n,
                                         lp=loop: n is lp,
                                         follow_exc=False):
                reads |= N.mentions(ctl.ast) & maps
        bad = []
        for node in K.loop_body_nodes(loop):
            if node.kind == 'stmt' and isinstance(node.ast, ast.Assign) and \
                    isinstance(node.ast.targets[0], ast.Subscript) and \
                    isinstance(node.ast.targets[0].value, ast.Name) and \
                    node.ast.targets[0].value.id in reads and \
                    dnode in K.cut_reach(graph, node, cut_node=lambda n,
                                         lp=loop: n is lp,
                                         follow_exc=False) - {node}:
                bad.append(node)
        ctx.ob('C09.4', func, bad[0] if bad else dnode, not bad,
               'a copy is judged against the model as it was recorded (the '
               'map the repair reads is not rewritten earlier in the same '
               'iteration)', construct='self check judges both copies: %s'
               % dnode.text(40))


def _publication_failures_escape(ctx, rule='C09.3'):
    """C09.3: a publication either writes every change of the cycle or does
    not return: the change list is the difference between two snapshots of
    the model, the next cycle starts from the new snapshot, so a change
    whose write failed is never seen again.  A failure of a record write or
    delete therefore escapes the publication routine (the master stops and
    the start-up publication of its successor reconciles everything) - no
    handler inside the routine takes it and goes on."""
    _master, routines = M.publication_routines(ctx)
    ctx.require(routines, 'publication routines of the master', rule=rule)
    for func in routines:
        graph, ops = M.record_ops(ctx, func)
        handled = []
        for node, _op, _rec, _call in ops:
            for edge in node.succ:
                if edge.kind != 'exc':
                    continue
                reach = K.cut_reach(graph, edge.dst, follow_exc=True)
                if any(n.kind == 'handler' for n in reach | {edge.dst}):
                    handled.append(node)
        ctx.ob(rule, func, handled[0] if handled else None, not handled,
               'a failed write or delete of a placement record escapes %s '
               '(no handler takes it: what this publication misses no later '
               'one repeats)' % func.name,
               construct='record write failure escapes %s' % func.name)


def check(ctx):
    _self_check_repair(ctx)
    _publication_failures_escape(ctx)
    master = ctx.index.get_class(K.MASTER, 'Master')
    if ctx.tier == 'thorough':
        _record_owner(ctx)
    _identity_with_placement(ctx)
    _startup(ctx, master)
    _payload(ctx, master)
    _reschedule(ctx, master)
    SM.snapshot_brackets(ctx, 'C09.3')
    _unsnapshotted(ctx, master)
    unplacement_callers(ctx, master)
    _reload(ctx)
    _removal(ctx, master)
    # shared with C01.8: a server object leaves the model only after its
    # placements were withdrawn - an instance that still names the server
    # stays "placed" in the model while restore_placement drops its record
    from . import c01
    with ctx.shared({'C01': 'C09.4'}):
        c01._model_exit(ctx)
    # shared with C10.3: an instance recorded under several servers at a
    # restart loses every copy, in the model and in the store (a copy kept
    # in the store only is a record without a placement), and deleting a
    # server through the API removes its records before the master hears
    # of it
    from . import c10
    c10.restart_repair(ctx, 'C09.4')
    c10._server_deletion(ctx, 'C09.4')
    # shared with C11.2 / C11.4: every recorded instance that a reload does
    # not put back has its record deleted in the same iteration (the next
    # cycle places it elsewhere and writes a second record; the first
    # publication only deletes what the cycle reported as the old server)
    from . import c11
    loader = ctx.index.get_class(K.LOADER, 'Loader')
    with ctx.shared({'C11': 'C09.4'}):
        found = c11._verbatim(ctx, loader)
        if found is not None:
            c11._keys_and_identity(ctx, loader, master, found[0], found[1],
                                   found[2])


_M = 'lib/python/treadmill/scheduler/master.py'
_L = 'lib/python/treadmill/scheduler/loader.py'
_S = 'lib/python/treadmill/scheduler/__init__.py'

MUTANTS = [
    ('startup-delete-reversed', [(_M, """            for app in current - correct:
                _LOGGER.info('Unscheduling: %s - %s', servername, app)
""", """            for app in correct - current:
                _LOGGER.info('Unscheduling: %s - %s', servername, app)
""")], 'C09.1'),
    ('startup-create-ignores-changed', [(_M, """            for app in (correct - current) | (correct & changed):
""", """            for app in correct - current:
""")], 'C09.1'),
    ('startup-only-model-servers', [(_M, """        for servername in set(self.backend.list(z.PLACEMENT)) | set(servers):
""", """        for servername in set(servers):
""")], 'C09.1'),
    ('startup-changed-only-server', [(_M, """            for app, before, exp_before, after, exp_after in placement
            if before != after or exp_before != exp_after
        }
""", """            for app, before, exp_before, after, exp_after in placement
            if before != after
        }
""")], 'C09.1'),
    ('record-expiry-from-lease', [(_M, """            'expires': self.cell.apps[app].placement_expiry
""", """            'expires': self.cell.apps[app].lease
""")], 'C09.2'),
    ('record-without-identity', [(_M, """            'identity': identity,
            'identity_count': identity_count,
""", """            'identity_count': identity_count,
""")], 'C09.2'),
    ('reschedule-partial-update', [(_M, """        for app, before, _exp_before, after, exp_after in changed_placement:
            placement_data = self._placement_data(app)
""", """        for app, before, _exp_before, after, exp_after in changed_placement:
            placement_data = self._placement_data(app)
            if after and before == after:
                self.backend.update(z.path.placement(after, app),
                                    {'expires': exp_after})
                continue
""")], 'C09.2'),
    ('reschedule-delete-only-known', [(_M, """            if before and before != after:
                _LOGGER.info('Unscheduling: %s - %s', before, app)
""", """            if before and before != after and before in self.servers:
                _LOGGER.info('Unscheduling: %s - %s', before, app)
""")], 'C09.3'),
    ('reschedule-filter-server-only', [(_M, """            for app, before, exp_before, after, exp_after in placement
            if before != after or exp_before != exp_after
        ]
""", """            for app, before, exp_before, after, exp_after in placement
            if before != after
        ]
""")], 'C09.3'),
    ('reschedule-put-under-before', [(_M, """                self.backend.put(
                    z.path.placement(after, app),
                    placement_data
                )
                self._update_task(app, after, why=why)
""", """                self.backend.put(
                    z.path.placement(before or after, app),
                    placement_data
                )
                self._update_task(app, after, why=why)
""")], 'C09.3'),
    ('loader-no-republish', [(_L, """                    if restored:
                        # App lease was re-evaluated, record new expiry.
                        data['expires'] = app.placement_expiry
                        self.backend.put(appnode, data)
""", "")], 'C09.4'),
    ('renew-outside-cycle', [(_M, """    def tick_reboots(self):
        \"\"\"Tick partition reboot schedulers.\"\"\"
        now = time.time()
""", """    def tick_reboots(self):
        \"\"\"Tick partition reboot schedulers.\"\"\"
        now = time.time()
        for app in self.cell.apps.values():
            if app.server and app.lease:
                self.servers[app.server].renew(app)
""")], 'C09.4'),
    ('expiry-written-by-loader', [(_L, """        if app:
            app.priority = priority
            app.data_retention_timeout = data_retention
""", """        if app:
            app.priority = priority
            app.data_retention_timeout = data_retention
            if app.lease != lease:
                app.placement_expiry = time.time() + lease
""")], 'C09.4'),
    ('remove-app-forgets-record', [(_M, """        if app.server:
            self.backend.delete(z.path.placement(app.server, appname))

        if self.app_events_dir:
            trace.post(
                self.app_events_dir,
                app_events.DeletedTraceEvent(""", """        if self.app_events_dir:
            trace.post(
                self.app_events_dir,
                app_events.DeletedTraceEvent(""")], 'C09.5'),
    ('load-app-bypasses-funnel', [(_L, """        if not manifest:
            self.remove_app(appname)
            return
""", """        if not manifest:
            self.cell.remove_app(appname)
            return
""")], 'C09.5'),
    ('scheduled-deleted-before-finished', [(_M, """                self.backend.put(
                    z.path.finished(appname),
                    {'state': 'terminated',
                     'when': time.time(),
                     'host': None,
                     'data': 'schedule_once'},
                )
                self.backend.delete(z.path.scheduled(appname))
""", """                self.backend.delete(z.path.scheduled(appname))
                self.backend.put(
                    z.path.finished(appname),
                    {'state': 'terminated',
                     'when': time.time(),
                     'host': None,
                     'data': 'schedule_once'},
                )
""")], 'C09.5'),
]

REFACTORS = [
    ('startup-difference-method', [(_M, """            for app in current - correct:
                _LOGGER.info('Unscheduling: %s - %s', servername, app)
""", """            for app in current.difference(correct):
                _LOGGER.info('Unscheduling: %s - %s', servername, app)
""")]),
    ('startup-create-rewritten', [(_M, """            for app in (correct - current) | (correct & changed):
""", """            for app in correct - (current - changed):
""")]),
    ('reschedule-filter-swapped', [(_M, """            for app, before, exp_before, after, exp_after in placement
            if before != after or exp_before != exp_after
        ]
""", """            for app, before, exp_before, after, exp_after in placement
            if exp_after != exp_before or after != before
        ]
""")]),
    ('record-inline', [(_M, """        identity = self.cell.apps[app].identity
        identity_group_ref = self.cell.apps[app].identity_group_ref
""", """        identity = self.cell.apps[app].identity
        _LOGGER.debug('placement data of %s', app)
        identity_group_ref = self.cell.apps[app].identity_group_ref
""")]),
]

# sweep-driven clauses (DESIGN 9.7)
MUTANTS += [
    ('startup-member-test-inverted', [(_M, """            if servername in servers:
                self.backend.ensure_exists(placement_node)
""", """            if servername not in servers:
                self.backend.ensure_exists(placement_node)
""")], 'C09.1'),
]
