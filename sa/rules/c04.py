"""C04 - affinity limits hold at every level of the topology."""

import ast

from .. import cfg as C
from .. import norm as N
from ..index import dotted_text
from . import common as K
from .sched_model import PlacementLoop

EXPLANATION = """
C04.1 counters move with placements and with topology: the leaf placement
increments and the leaf removal decrements the counter of the instance's
affinity (exactly once, see C01.2); increment_affinity/decrement_affinity
apply the *whole* multiset they are given (update/subtract of the argument)
and recurse to the parent with the same argument; add_node adds the child's
whole counter; every routine that detaches a child (child.parent = None, or
re-initialising the children containers) withdraws the child's counters and
traits first.  C04.2 the limit test is count < limit, count read from this
node's counter of the instance's affinity and limit from the instance's
limits at this node's level.  C04.3 every level is checked on every placement
path: either the leaf's limit routine walks the whole parent chain (its loop
can be left only by a failed check or at the root), or every direct
put/restore on a server must be preceded by such a walk.
Added by the seeding rounds - C04.1 propagation calls are made on self, both
as recursion and as an iterative walk, and un-placement lives only in
Server.remove / _fix_invalid_placements (a bulk reset must not skip the per-
instance bookkeeping); C04.3 every store into self.apps lies behind the
admission predicate of every level, restore included. Fourth round: C04.3 a
server enters the tree (or changes parent) as a fresh object - a live server
is never re-attached together with its instances.
Fifth round: C04.1 the affinity of an instance is set by its constructor only, and the restart repair takes a duplicated instance off every server through Server.remove (shared with C10.3).
Sixth round: C04.2 a bucket without a recorded level takes the first component of its name.
Seventh round: C04.1 the placement attribute of an instance is written by Server.put / Server.remove only (shared owner clause of C01.3), and an instance leaves the cell only after it was taken off its server, whatever the state of that server (shared with C05.2).
Eighth round: C04.1 OWNER over the whole package - the affinity counter of a node is edited only by increment_affinity / decrement_affinity and created by constructors.
Does NOT decide that the counters equal the true counts over histories.
"""

ASSUMPTIONS = [
    'collections.Counter.update/subtract add/subtract whole multisets',
]

MIN_OBLIGATIONS = 14
MIN_PER_RULE = {'C04.1': 8, 'C04.2': 1, 'C04.3': 2}


def _iterative_walk(graph):
    """(var, loop head, advancing nodes) of a walk  v = self; while v: ...;
    v = v.parent  in the function, or None."""
    nz = N.Normaliser()
    for head in graph.nodes:
        if head.kind != 'loop_head' or head.ast is None or \
                not isinstance(head.ast, ast.While):
            continue
        body = K.loop_body_nodes(head)
        adv = [n for n in body if n.kind == 'stmt' and
               isinstance(n.ast, ast.Assign) and
               isinstance(n.ast.targets[0], ast.Name) and
               N.txt(n.ast.value) == '%s.parent' % n.ast.targets[0].id]
        if not adv:
            continue
        var = adv[0].ast.targets[0].id
        inits = [n for n in graph.nodes if n.kind == 'stmt' and
                 isinstance(n.ast, ast.Assign) and
                 N.txt(n.ast.targets[0]) == var and n not in body]
        if not inits or any(N.txt(n.ast.value) != 'self' for n in inits):
            continue
        atom = nz.atom(head.ast.test)
        if atom.key[0] == 'truth' and atom.key[1] == var and atom.key[2] \
                or atom.key[0] == 'is' and atom.key[1] == var and \
                atom.key[2] == 'None' and not atom.key[3]:
            return var, head, adv
    return None


def _counters(ctx):
    index = ctx.index
    node_cls = index.get_class(K.SCHED, 'Node')
    server = index.get_class(K.SCHED, 'Server')
    nz = N.Normaliser()
    for name, meth in (('increment_affinity', 'update'),
                       ('decrement_affinity', 'subtract')):
        func = index.find_method(node_cls, name)
        ctx.require(func is not None, 'Node.%s' % name)
        graph = ctx.cfg(func)
        param = func.params()[1]
        walk = _iterative_walk(graph)
        recv = '%s.affinity_counters' % (walk[0] if walk else 'self')
        hits = K.nodes_calling(
            graph, lambda c, m=meth: K.is_meth(c, m) and
            K.recv_text(c) == recv and
            len(c.args) == 1 and N.txt(c.args[0]) == param)
        other = [n for n in graph.nodes if n.kind == 'stmt' and any(
            'affinity_counters' in N.txt(t)
            for t in (n.ast.targets if isinstance(n.ast, ast.Assign) else
                      [n.ast.target] if isinstance(n.ast, ast.AugAssign)
                      else []))]
        if walk:
            # iterative form: v = self; while v: v.counters.<m>(arg);
            # v = v.parent - every iteration applies before advancing and
            # the walk ends only above the root
            var, head, adv = walk
            skip = K.find_path(
                head, [head, graph.exit],
                cut_node=lambda n: any(n is h for h, _c in hits),
                cut_edge=lambda e: e.kind == 'false' and
                _is_loop_test(head, e.src), follow_exc=False)
            leaves = [e for e in K.loop_exit_edges(head)
                      if e.kind != 'exc' and
                      not _is_loop_test(head, e.src)]
            noadv = K.find_path(
                head, [head], cut_node=lambda n: n in adv,
                cut_edge=lambda e: e.kind == 'false' and
                _is_loop_test(head, e.src), follow_exc=False)
            ctx.ob('C04.1', func, hits[0][0] if hits else head,
                   bool(hits) and skip is None and not other,
                   '%s applies the whole multiset at every visited level: '
                   '%s.%s(%s) on every path of the walk, no element-wise '
                   'rewrite' % (name, recv, meth, param),
                   construct='self.affinity_counters.%s(%s)' % (meth, param))
            ctx.ob('C04.1', func, head, not leaves and noadv is None,
                   '%s walks from this node to the root with the same '
                   'argument (left only when %s is exhausted, advancing by '
                   '.parent)' % (name, var),
                   construct='%s -> self.parent.%s(%s)' % (name, name,
                                                           param))
            continue
        seen = K.cut_reach(graph, graph.entry,
                           cut_node=lambda n: any(n is h for h, _c in hits),
                           follow_exc=False)
        ctx.ob('C04.1', func, hits[0][0] if hits else None,
               bool(hits) and graph.exit not in seen and not other,
               '%s applies the whole multiset: affinity_counters.%s(%s) on '
               'every path, no element-wise rewrite' % (name, meth, param),
               construct='self.affinity_counters.%s(%s)' % (meth, param))
        # recursion with the same argument

        def recurses(node, name=name, param=param):
            for call in C.node_calls(node):
                if K.is_meth(call, name) and \
                        K.recv_text(call) == 'self.parent' and \
                        len(call.args) == 1 and \
                        N.txt(call.args[0]) == param:
                    return True
            return False
        path = K.find_path(
            graph.entry, [graph.exit], cut_node=recurses,
            cut_edge=lambda e: K.truth_edge(nz, e, 'self.parent', False) or
            any(a.key[0] == 'is' and a.key[1] == 'self.parent' and
                a.key[2] == 'None' and a.key[3]
                for a in nz.facts_of_edge(e)), follow_exc=False)
        ctx.ob('C04.1', func, None, path is None,
               '%s recurses to the parent with the same argument' % name,
               path=K.describe(path) if path else None,
               construct='%s -> self.parent.%s(%s)' % (name, name, param))
    # leaf placement / removal use them with [app.affinity.name]
    for mname, cname in (('put', 'increment_affinity'),
                         ('remove', 'decrement_affinity')):
        func = index.find_method(server, mname)
        ctx.require(func is not None, 'Server.%s' % mname)
        graph = ctx.cfg(func)
        appv = func.params()[1] if mname == 'put' else None
        hits = K.nodes_calling(
            graph, lambda c, cn=cname, f=func: K.is_meth(c, cn) and
            K.recv_text(c) == 'self' and len(c.args) == 1 and
            isinstance(K.rexpr(f, c.args[0]), (ast.List, ast.Tuple)) and
            len(K.rexpr(f, c.args[0]).elts) == 1 and
            N.txt(K.rexpr(f, c.args[0]).elts[0]).endswith(
                '.affinity.name'))
        ctx.ob('C04.1', func, hits[0][0] if hits else None, len(hits) == 1,
               'Server.%s calls %s([app.affinity.name]) (exactly-once is '
               'C01.2)' % (mname, cname),
               construct='Server.%s -> %s' % (mname, cname))
    # an instance is un-placed only by the routine that also withdraws its
    # affinity (Server.remove); the one exception is a server that vanished
    # from the cell, whose counters vanished with it
    mod_ = index.module(K.SCHED)
    for cls_ in mod_.classes.values():
        for func in cls_.live_methods():
            for sub in K.walk_no_nested(func.node):
                if isinstance(sub, ast.Assign) and \
                        isinstance(sub.value, ast.Constant) and \
                        sub.value.value is None and any(
                            isinstance(t, ast.Attribute) and
                            t.attr == 'server' and
                            not K.name_is(t.value, 'self')
                            for t in sub.targets):
                    ok = func.qualname in ('Server.remove',
                                           'Cell._fix_invalid_placements')
                    ctx.ob('C04.1', func, sub, ok,
                           'instances are un-placed only by Server.remove, '
                           'which decrements the affinity counters with '
                           'them' if ok else
                           '%s un-places instances itself: the affinity '
                           'counters of the server and its ancestors are '
                           'not withdrawn per instance' % func.qualname,
                           construct='un-placement in %s' % func.qualname)
    # add_node adds the child's whole counter
    add = index.find_method(node_cls, 'add_node')
    ctx.require(add is not None, 'Node.add_node')
    child = add.params()[1]
    graph = ctx.cfg(add)
    hits = K.nodes_calling(
        graph, lambda c: K.is_meth(c, 'increment_affinity') and
        K.recv_text(c) == 'self' and len(c.args) == 1 and
        N.txt(c.args[0]) == '%s.affinity_counters' % child)
    seen = K.cut_reach(graph, graph.entry,
                       cut_node=lambda n: any(n is h for h, _c in hits),
                       follow_exc=False)
    ctx.ob('C04.1', add, hits[0][0] if hits else None,
           bool(hits) and graph.exit not in seen,
           "add_node adds the child's whole counter",
           construct='add_node -> increment_affinity(child counters)')
    # detaching routines
    mod = index.module(K.SCHED)
    detach = 0
    for cls in mod.classes.values():
        if node_cls not in index.mro(cls):
            continue
        for func in cls.live_methods():
            if func.name == '__init__':
                continue
            graph = None
            for sub in K.walk_no_nested(func.node):
                if isinstance(sub, ast.Assign) and any(
                        isinstance(t, ast.Attribute) and t.attr == 'parent'
                        and not K.name_is(t.value, 'self')
                        for t in sub.targets) and isinstance(
                            sub.value, ast.Constant) and \
                        sub.value.value is None:
                    detach += 1
                    graph = graph or ctx.cfg(func)
                    tgt = [t for t in sub.targets
                           if isinstance(t, ast.Attribute)][0]
                    var = N.txt(tgt.value)
                    site = [n for n in graph.nodes if n.ast is sub][0]
                    for meth, arg in (
                            ('decrement_affinity',
                             '%s.affinity_counters' % var),
                            ('remove_child_traits', '%s.name' % var)):
                        ok = K.guarded_by(
                            graph, site, lambda e, m=meth, a=arg: any(
                                K.is_meth(c, m) and c.args and
                                K.recv_text(c) == 'self' and
                                N.txt(c.args[0]) == a
                                for c in C.node_calls(e.src)))
                        ctx.ob('C04.1', func, site, ok,
                               'a child is detached only after this node\'s '
                               '%s(%s)' % (meth, arg),
                               construct='%s <= %s' % (site.text(40), meth))
                if isinstance(sub, ast.Assign) and any(
                        N.txt(t) in ('self.children',
                                     'self.children_by_name')
                        for t in sub.targets):
                    detach += 1
                    graph = graph or ctx.cfg(func)
                    site = [n for n in graph.nodes if n.ast is sub][0]
                    # preceded by a loop over the children calling
                    # remove_node on each
                    loops = [n for n in graph.nodes if n.kind == 'for' and
                             'children' in N.txt(n.ast.iter)]
                    ok = False
                    for loop in loops:
                        var = sorted(N.for_targets(loop))[0]
                        body = K.loop_body_nodes(loop)
                        calls_rm = any(
                            K.is_meth(c, 'remove_node',
                                      'remove_node_by_name') and c.args and
                            N.txt(c.args[0]) in (var, '%s.name' % var)
                            for n in body for c in C.node_calls(n))
                        skips = [n for n in body if n.kind == 'stmt' and
                                 isinstance(n.ast, (ast.Continue,
                                                    ast.Break))]
                        if calls_rm and not skips and K.guarded_by(
                                graph, site,
                                lambda e, lp=loop: e.src is lp and
                                e.kind == 'done'):
                            ok = True
                    ctx.ob('C04.1', func, site, ok,
                           'the children containers are reset only after '
                           'every child was withdrawn through remove_node')
    ctx.require(detach >= 3, 'routines detaching children (found %d)' %
                detach, rule='C04.1')
    return node_cls, server


_COUNTER_MUTATORS = ('clear', 'update', 'subtract', 'pop', 'popitem',
                     'setdefault', '__setitem__', '__delitem__')


def _counter_owner(ctx):
    """C04.1 OWNER (whole package): the affinity counter of a node changes
    only inside increment_affinity / decrement_affinity (and is created by a
    constructor).  Whoever else clears, re-assigns or edits
    ``<node>.affinity_counters`` breaks "count = instances placed below":
    the routines that attach and detach children already withdraw and add
    what the children hold."""
    owners = ('increment_affinity', 'decrement_affinity', '__init__')
    judged = 0
    ctx.index.load_all()
    for mod in list(ctx.index.modules.values()):
        if 'affinity_counters' not in mod.source:
            continue
        if '.tests.' in mod.name or mod.name.endswith('.tests'):
            continue
        for func in mod.live_functions():
            if func.name in owners:
                continue
            for sub in K.walk_no_nested(func.raw):
                bad = None
                if isinstance(sub, ast.Call) and isinstance(
                        sub.func, ast.Attribute) and \
                        sub.func.attr in _COUNTER_MUTATORS and \
                        N.txt(sub.func.value).endswith('.affinity_counters'):
                    bad = sub
                tgts = sub.targets if isinstance(sub, (ast.Assign,
                                                       ast.Delete)) else \
                    [sub.target] if isinstance(sub, ast.AugAssign) else []
                for tgt in tgts:
                    base = tgt.value if isinstance(tgt, ast.Subscript) \
                        else tgt
                    if isinstance(base, ast.Attribute) and \
                            base.attr == 'affinity_counters':
                        bad = sub
                if bad is not None:
                    ctx.fail('C04.1', func, bad,
                             'the affinity counter of a node is edited '
                             'outside increment_affinity / decrement_affinity'
                             ': it no longer equals the instances placed '
                             'below the node',
                             construct='counter owner: %s' % N.txt(bad)[:50])
        judged += 1
    ctx.ok('C04.1', 'treadmill', None,
           'affinity counters are edited only by increment_affinity / '
           'decrement_affinity and created by constructors (%d modules '
           'mentioning them)' % judged, construct='counter owner',
           file='lib/python/treadmill/scheduler/__init__.py')
    ctx.require(judged >= 1, 'modules mentioning affinity_counters',
                rule='C04.1')


def _polarity(ctx, node_cls):
    index = ctx.index
    nz = N.Normaliser()
    func = index.find_method(node_cls, 'check_app_affinity_limit')
    ctx.require(func is not None, 'Node.check_app_affinity_limit')
    app = func.params()[1]
    local = {}
    for sub in K.walk_no_nested(func.node):
        if isinstance(sub, ast.Assign) and len(sub.targets) == 1 and \
                isinstance(sub.targets[0], ast.Name):
            local[sub.targets[0].id] = sub.value
    rets = [s for s in K.walk_no_nested(func.node)
            if isinstance(s, ast.Return)]
    ctx.require(rets, 'return of check_app_affinity_limit', rule='C04.2')

    class Sub(ast.NodeTransformer):
        def visit_Name(self, node):
            if node.id in local:
                return local[node.id]
            return node
    want = N.cmp_atom(
        ast.parse('self.affinity_counters[%s.affinity.name]' % app,
                  mode='eval').body, '<',
        ast.parse('%s.affinity.limits[self.level]' % app,
                  mode='eval').body)
    graph = ctx.cfg(func)
    nzl = N.Normaliser(env=K.func_env(func))
    for ret in rets:
        import copy
        if isinstance(ret.value, ast.Constant) and \
                isinstance(ret.value.value, bool):
            # the answer spelled out: True only under count < limit, False
            # only under its negation
            goal = want if ret.value.value else N.negate(want)
            node = [n for n in graph.nodes if n.kind == 'return' and
                    n.ast is ret]
            ok = bool(node) and K.guarded_by_atoms(
                ctx, func, graph, node[0],
                lambda a, g=goal: a.key == g.key, nzl, follow_exc=False)
            ctx.ob('C04.2', func, ret, ok,
                   'limit test is %s (%s only under %s)' % (
                       N.show(want), ret.value.value, N.show(goal)))
            continue
        expr = Sub().visit(copy.deepcopy(ret.value))
        atom = nz.atom(expr)
        ctx.ob('C04.2', func, ret, atom == want,
               'limit test is %s (found %s)' % (N.show(want),
                                               N.show(atom)))
    return func


def _every_level(ctx, node_cls, server, base):
    index = ctx.index
    nz = N.Normaliser()
    leaf = server.methods.get(base.name)
    loop = PlacementLoop(ctx)
    direct = []
    for node in loop.body():
        for call in C.node_calls(node):
            if loop.places(call) and K.recv_text(call) != 'self':
                direct.append((loop.func, node, call))
    ctx.require(len(direct) >= 2, 'direct put/restore sites in the '
                                  'placement loop', rule='C04.3')
    if leaf is None:
        for func, node, call in direct:
            ctx.fail('C04.3', func, node,
                     'the instance is put straight onto a server: only the '
                     'server-level limit is checked, rack/pod/cell limits '
                     'are not (no ancestor walk in the leaf placement or '
                     'before this call)')
        return
    # every routine of the leaf that records an instance on the server does
    # so behind the admission predicate (whose Server override walks the
    # limits of every level) - also the verbatim restore
    stores = 0
    for func in server.live_methods():
        sgraph = None
        for sub in K.walk_no_nested(func.node):
            if not (isinstance(sub, ast.Assign) and any(
                    isinstance(t, ast.Subscript) and
                    N.txt(t.value) == 'self.apps' for t in sub.targets)):
                continue
            sgraph = sgraph or ctx.cfg(func)
            site = [n for n in sgraph.nodes if n.ast is sub]
            if not site:
                continue
            stores += 1
            ok = K.guarded_by(sgraph, site[0], lambda e: any(
                a.key[0] == 'truth' and a.key[2] and (
                    a.key[1].startswith('self.check_app_constraints(') or
                    a.key[1].startswith('self.%s(' % base.name))
                for a in nz.facts_of_edge(e)))
            ctx.ob('C04.3', func, site[0], ok,
                   'an instance is recorded on the server only after the '
                   'admission predicate (limits of every level) accepted it',
                   construct='store into self.apps in %s' % func.name)
    ctx.require(stores >= 1, 'store into Server.apps', rule='C04.3')
    graph = ctx.cfg(leaf)
    app = leaf.params()[1]
    heads = [n for n in graph.nodes if n.kind == 'loop_head']
    if not heads:
        ctx.fail('C04.3', leaf, None, 'the leaf limit routine does not walk '
                 'the parent chain', construct='ancestor walk')
        return
    head = heads[0]
    body = K.loop_body_nodes(head)
    # the walking variable: assigned <v> = <v>.parent in the body
    adv = [n for n in body if n.kind == 'stmt' and
           isinstance(n.ast, ast.Assign) and
           isinstance(n.ast.targets[0], ast.Name) and
           N.txt(n.ast.value) == '%s.parent' % n.ast.targets[0].id]
    ctx.ob('C04.3', leaf, adv[0] if adv else head, bool(adv),
           'the walk advances with <node> = <node>.parent',
           construct='advance to parent')
    if not adv:
        return
    var = adv[0].ast.targets[0].id
    inits = [n for n in graph.nodes if n.kind == 'stmt' and
             isinstance(n.ast, ast.Assign) and
             N.txt(n.ast.targets[0]) == var and n not in body]
    ctx.ob('C04.3', leaf, inits[0] if inits else head,
           bool(inits) and all(N.txt(n.ast.value) == 'self' for n in inits),
           'the walk starts at the server itself',
           construct='%s = self' % var)
    # names holding the visited node: the walking variable and same-
    # iteration copies of it (re-taken after every advance)
    holders = {var: None}
    for n in body:
        if n.kind == 'stmt' and isinstance(n.ast, ast.Assign) and \
                len(n.ast.targets) == 1 and \
                isinstance(n.ast.targets[0], ast.Name) and \
                N.txt(n.ast.value) == var and n.ast.targets[0].id != var:
            name = n.ast.targets[0].id
            others = [m for m in graph.nodes if m is not n and
                      m.kind == 'stmt' and isinstance(m.ast, ast.Assign)
                      and any(N.txt(t) == name for t in m.ast.targets)]
            if not others:
                holders[name] = n

    def visited(expr, at):
        name = N.txt(expr)
        if name not in holders:
            return False
        taken = holders[name]
        if taken is None:
            return True
        return all(K.find_path(a, [at], cut_node=lambda m: m is taken,
                               follow_exc=False) is None for a in adv)
    checks = [n for n in body if n.kind == 'test' and any(
        K.is_meth(c, base.name) and (
            (dotted_text(c.func) or '').split('.')[0] in
            ('Node', 'super') and len(c.args) == 2 and
            visited(c.args[0], n) and N.txt(c.args[1]) == app or
            visited(K.recv(c), n) and len(c.args) == 1 and
            N.txt(c.args[0]) == app)
        for c in K.calls(n.ast))]
    ctx.ob('C04.3', leaf, checks[0] if checks else head, bool(checks),
           'each visited node is checked with the per-node limit test',
           construct='per-level check in the walk')
    # exits of the loop: only (a) loop condition false = root passed,
    # (b) return False after a failed check
    for edge in K.loop_exit_edges(head):
        if edge.kind == 'exc':
            continue
        src = edge.src
        if src.kind == 'test' and src.ast is head.ast.test or \
                (src.kind == 'test' and edge.kind == 'false' and
                 src not in checks and _is_loop_test(head, src)):
            atoms = nz.facts_of_edge(edge)
            ok = any(a.key[0] == 'is' and a.key[1] == var and
                     a.key[2] == 'None' and a.key[3] or
                     a.key[0] == 'truth' and a.key[1] == var and
                     not a.key[2] for a in atoms)
            ctx.ob('C04.3', leaf, src, ok,
                   'the walk ends only above the root (%s is None)' % var,
                   construct='walk exit: loop condition')
            continue
        ok = False
        if src.kind == 'return':
            val = src.ast.value
            falsy = val is None or (isinstance(val, ast.Constant) and
                                    not val.value)
            guarded = K.guarded_by(
                graph, src, lambda e: e.src in checks and
                e.kind == 'false', start=head)
            ok = falsy and guarded
        ctx.ob('C04.3', leaf, src, ok,
               'the walk is left early only by rejecting (a failed '
               'per-level check)' if ok else
               'the walk can be left before the root without a failed '
               'check: levels above are not checked',
               construct='walk exit: %s [%s]' % (
                   src.text(40), K.controlling(src, graph)))
    # every iteration that does not reject advances
    for chk in checks:
        for edge in chk.succ:
            if edge.kind != 'true':
                continue
            path = K.find_path(chk, [head],
                               cut_node=lambda n: n in adv,
                               cut_edge=lambda e, c=chk: e.src is c and
                               e.kind != 'true', follow_exc=False)
            ctx.ob('C04.3', leaf, chk, path is None,
                   'after a passed check the walk moves to the parent',
                   path=K.describe(path) if path else None,
                   construct='passed check => advance')
    # accept only after the loop
    for node in graph.nodes:
        if node.kind == 'return' and isinstance(
                node.ast.value, ast.Constant) and node.ast.value.value:
            ok = node not in body
            ctx.ob('C04.3', leaf, node, ok,
                   'accept only after the whole chain was walked',
                   construct='accept after the walk')
    # and the leaf predicate is what the leaf placement consults
    pred = index.find_method(node_cls, 'check_app_constraints')
    uses = any(isinstance(s, ast.Call) and K.is_meth(s, base.name) and
               K.recv_text(s) == 'self'
               for s in K.walk_no_nested(pred.node))
    ctx.ob('C04.3', pred, None, uses,
           'the admission predicate consults self.%s (dispatching to the '
           'leaf walk on a server)' % base.name,
           construct='check_app_constraints -> %s' % base.name)


def _is_loop_test(head, node):
    for sub in ast.walk(head.ast.test):
        if sub is node.ast:
            return True
    return False


def _attach_empty(ctx):
    """C04.3: a server enters the tree (or changes its parent) empty.  The
    instances of a server whose definition changed come back through
    restore_placement, i.e. through the admission of every new ancestor;
    moving the live object with its instances would carry them past the
    rack / pod limits of the new place."""
    loader = ctx.index.get_class(K.LOADER, 'Loader')
    master = ctx.index.get_class(K.MASTER, 'Master')
    seen = 0
    for cls in (loader, master):
        for func in cls.live_methods():
            defs = {}
            for sub in K.walk_no_nested(func.node):
                if isinstance(sub, ast.Assign) and len(sub.targets) == 1 \
                        and isinstance(sub.targets[0], ast.Name):
                    defs.setdefault(sub.targets[0].id, []).append(sub.value)
            for call in K.calls(func.node):
                if not (K.is_meth(call, 'add_node') and call.args):
                    continue
                seen += 1
                arg = call.args[0]
                vals = defs.get(arg.id, [arg]) if isinstance(
                    arg, ast.Name) else [arg]
                live = [v for v in vals
                        if 'self.servers' in N.txt(v) or
                        'cell.members()' in N.txt(v)]
                ctx.ob('C04.3', func, call, not live,
                       'the node attached is a fresh object or a bucket, '
                       'never a server of the running model (which may hold '
                       'instances)' if not live else
                       'a server of the running model is attached to a '
                       'parent together with its instances: they are not '
                       're-admitted against the limits of the new '
                       'ancestors (%s)' % N.txt(live[0]),
                       construct='attach %s' % N.txt(arg))
    ctx.require(seen >= 3, 'add_node call sites of the loader', rule='C04.3')


def fixed_after_construction(ctx, rule, attr, why_ok, why_bad):
    """OWNER: attribute ``attr`` of an instance is stored (re-bound, updated
    in place through a subscript / slice, or augmented) by a constructor
    only."""
    index = ctx.index
    mods = [index.module(K.SCHED), index.module(K.LOADER),
            index.module(K.MASTER)]
    if ctx.tier in ('quick', 'thorough'):   # whole-package clause, cheap enough for every run
        mods = [m for m in index.modules.values()
                if 'treadmill.scheduler' in m.imports.values() or
                m.name.startswith('treadmill.scheduler')]
    inside = 0
    for mod in mods:
        for func in mod.live_functions():
            for sub in K.walk_no_nested(func.node):
                tgts = []
                if isinstance(sub, ast.Assign):
                    tgts = sub.targets
                elif isinstance(sub, (ast.AugAssign, ast.AnnAssign)):
                    tgts = [sub.target]
                for tgt in tgts:
                    for leaf in ast.walk(tgt):
                        if not (isinstance(leaf, ast.Attribute) and
                                leaf.attr == attr):
                            continue
                        # x.attr = ..   x.attr[..] = ..   x.attr op= ..
                        direct = isinstance(leaf.ctx, ast.Store)
                        through = leaf is not tgt and any(
                            isinstance(par, ast.Subscript) and
                            par.value is leaf and
                            isinstance(par.ctx, ast.Store)
                            for par in ast.walk(tgt))
                        if not (direct or through):
                            continue
                        ok = func.name == '__init__' and \
                            K.name_is(leaf.value, 'self')
                        inside += ok
                        ctx.ob(rule, func, sub, ok,
                               why_ok if ok else why_bad,
                               construct='%s owner' % attr)
    ctx.require(inside >= 1, 'the constructor store of %s' % attr, rule=rule)


def _affinity_fixed(ctx):
    """C04.1: the counter an instance was added to at placement is the one
    it is taken from at removal and the one the limit test reads: the
    affinity of an instance is set by its constructor and never afterwards
    (the manifest of a placed instance may be rewritten; what it was placed
    under stays)."""
    fixed_after_construction(
        ctx, 'C04.1', 'affinity',
        'the affinity of an instance is set by its constructor only',
        'the affinity of a (possibly placed) instance is replaced: the '
        'counters it was added to are no longer the ones it is removed from')


def _bucket_level(ctx):
    """C04.2: the limit that applies at a bucket is looked up under the
    bucket's level; a bucket without a recorded level takes the first
    component of its name (rack:r1, rack:east:r1 -> rack), which is how the
    limits of an instance name the levels."""
    loader = ctx.index.get_class(K.LOADER, 'Loader')
    func = loader.methods.get('load_bucket') if loader else None
    ctx.require(func is not None, 'Loader.load_bucket', rule='C04.2')
    ctors = [c for c in K.calls(func.node)
             if K.callee_text(c).endswith('Bucket')]
    ctx.require(ctors, 'Bucket constructor in load_bucket', rule='C04.2',
                func=func)
    name = func.params()[1]
    for call in ctors:
        level = K.kwarg(call, 'level')
        if level is None and len(call.args) > 1:
            level = call.args[1]
        expr = K.rexpr(func, level) if level is not None else None
        default = None
        if isinstance(expr, ast.Call) and K.is_meth(expr, 'get') and \
                len(expr.args) == 2:
            default = expr.args[1]
        if isinstance(default, ast.Call) and isinstance(
                default.func, ast.Name):
            # a small helper of the module: judged by what it computes
            inl = K.inline_expr_call(ctx.index, func, default)
            if inl is not None:
                default = inl
        ok = False
        if isinstance(default, ast.Subscript) and \
                N.txt(default.slice) == '0' and \
                isinstance(default.value, ast.Call) and \
                K.is_meth(default.value, 'split', 'partition') and \
                N.txt(K.recv(default.value)) == name and \
                default.value.args and \
                N.txt(default.value.args[0]) == "':'":
            ok = True
        ctx.ob('C04.2', func, call, ok,
               'a bucket without a recorded level takes the first component '
               'of its name (%s)' % (N.txt(expr) if expr is not None
                                     else 'no level given'),
               construct='bucket level from the name')


def check(ctx):
    _bucket_level(ctx)
    node_cls, server = _counters(ctx)
    base = _polarity(ctx, node_cls)
    _every_level(ctx, node_cls, server, base)
    _attach_empty(ctx)
    _affinity_fixed(ctx)
    _counter_owner(ctx)
    # shared with C10.3 / C01.9: an instance recorded under several servers
    # at a restart is taken off every one of them through Server.remove (a
    # copy that stays keeps counting on its server, rack and cell while the
    # instance is placed again)
    from . import c10
    c10.restart_repair(ctx, 'C04.1')
    # shared with C01.3 / C05.2: an instance stops being placed only through
    # Server.remove (the one named exception: its server left the cell), and
    # it leaves the cell only after it was taken off its server - otherwise
    # the counters of server, rack and cell keep counting it
    from . import c01, c05
    _nz1, srv1, _n1, put1, rem1, _p1 = c01._roles(ctx)
    with ctx.shared({'C01': 'C04.1', 'C05': 'C04.1'}):
        # (finding F18 - the validation pass un-places an instance whose
        # server left the cell without Server.remove, so the detached server
        # and its ancestors keep counting it - is reported here as well:
        # when the bucket returns, the cell's count is one too high)
        c01._owner(ctx, srv1, put1, rem1, detached_exception=False)
        c05._model_removal(ctx, removal_rule='C04.1')


_S = 'lib/python/treadmill/scheduler/__init__.py'

MUTANTS = [
    ('increment-elementwise', [(_S, """        self.affinity_counters.update(counters)
        if self.parent:
            self.parent.increment_affinity(counters)
""", """        for name in counters:
            self.affinity_counters[name] += 1
        if self.parent:
            self.parent.increment_affinity(counters)
""")], 'C04.1'),
    ('increment-not-recursive', [(_S, """        self.affinity_counters.update(counters)
        if self.parent:
            self.parent.increment_affinity(counters)
""", """        self.affinity_counters.update(counters)
""")], 'C04.1'),
    ('decrement-stops-at-pod', [(_S, """        self.affinity_counters.subtract(counters)
        if self.parent:
            self.parent.decrement_affinity(counters)
""", """        self.affinity_counters.subtract(counters)
        if self.parent and self.level != 'pod':
            self.parent.decrement_affinity(counters)
""")], 'C04.1'),
    ('add-node-no-counters', [(_S, """        self.add_child_traits(node)
        self.increment_affinity(node.affinity_counters)
""", """        self.add_child_traits(node)
""")], 'C04.1'),
    ('remove-node-no-counters', [(_S, """        self.remove_child_traits(node.name)
        self.decrement_affinity(node.affinity_counters)
""", """        self.remove_child_traits(node.name)
""")], 'C04.1'),
    ('reset-children-plain-detach', [(_S, """        for child in list(self.children_iter()):
            self.remove_node(child)
        self.children = list()
""", """        for child in self.children_iter():
            child.parent = None
        self.children = list()
""")], 'C04.1'),
    ('reset-children-no-loop', [(_S, """        for child in list(self.children_iter()):
            self.remove_node(child)
        self.children = list()
""", """        self.children = list()
""")], 'C04.1'),
    ('limit-le', [(_S, """        return count < limit
""", """        return count <= limit
""")], 'C04.2'),
    ('limit-wrong-level', [(_S, """        limit = app.affinity.limits[self.level]
""", """        limit = app.affinity.limits['server']
""")], 'C04.2'),
    ('limit-counts-all', [(_S, """        count = self.affinity_counters[app.affinity.name]
""", """        count = self.affinity_counters[app.name]
""")], 'C04.2'),
    ('walk-stops-at-unlimited-level', [(_S, """            node = node.parent
        return True
""", """            node = node.parent
            if (node is not None and
                    app.affinity.limits[node.level] == float('inf')):
                break
        return True
""")], 'C04.3'),
    ('walk-only-first-two-levels', [(_S, """        node = self
        while node is not None:
            if not Node.check_app_affinity_limit(node, app):
                return False
            node = node.parent
        return True
""", """        node = self
        while node is not None:
            if not Node.check_app_affinity_limit(node, app):
                return False
            if node.level == 'rack':
                return True
            node = node.parent
        return True
""")], 'C04.3'),
    ('walk-removed', [(_S, """        node = self
        while node is not None:
            if not Node.check_app_affinity_limit(node, app):
                return False
            node = node.parent
        return True
""", """        return Node.check_app_affinity_limit(self, app)
""")], 'C04.3'),
    ('walk-starts-at-parent', [(_S, """        node = self
        while node is not None:
            if not Node.check_app_affinity_limit(node, app):""", """        node = self.parent
        while node is not None:
            if not Node.check_app_affinity_limit(node, app):""")], 'C04.3'),
    ('constraints-skip-limit', [(_S, """        if not self.check_app_affinity_limit(app):
            return False

        if _any_gt""", """        if _any_gt""")], 'C04.3'),
]

REFACTORS = [
    ('walk-truthiness', [(_S, """        while node is not None:
            if not Node.check_app_affinity_limit(node, app):""", """        while node:
            if not Node.check_app_affinity_limit(node, app):""")]),
    ('walk-positive-test', [(_S, """            if not Node.check_app_affinity_limit(node, app):
                return False
            node = node.parent
""", """            if Node.check_app_affinity_limit(node, app):
                node = node.parent
            else:
                return False
""")]),
    ('limit-inline', [(_S, """        count = self.affinity_counters[app.affinity.name]
        limit = app.affinity.limits[self.level]
        return count < limit
""", """        return (self.affinity_counters[app.affinity.name] <
                app.affinity.limits[self.level])
""")]),
    ('limit-swapped', [(_S, """        return count < limit
""", """        return limit > count
""")]),
    ('increment-parent-is-not-none', [(_S, """        self.affinity_counters.update(counters)
        if self.parent:
""", """        self.affinity_counters.update(counters)
        if self.parent is not None:
""")]),
]
