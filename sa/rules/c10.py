"""C10 - a master crash at any point never leaves an instance placed twice
(ordering clauses)."""

import ast

from .. import cfg as C
from .. import norm as N
from . import common as K
from . import master_model as M

EXPLANATION = """
C10.1 NO-PATH in every publication routine (a Master method that both
deletes and writes instance placement records - reschedule and
init_schedule): inside the routine's CFG, loop back-edges included, no
placement-record delete is reachable from a placement-record write; i.e. two
complete passes, removals first - every crash prefix of every cycle contains
all removals before the first creation.  C10.2 a relocation always has its
delete in the first pass: the removal is guarded by exactly
`before and before != after` (reschedule) / ranges over exactly
stored - model (start-up), with no narrowing conjunct.  C10.3 restart
handling: Loader.restore_placements removes an instance found under more
than one server from all of them and deletes all its records (the action
loop ranges over the whole entry, unfiltered), entries with one server are
left alone.
Added by the seeding rounds - C10.2 shares the start-up domain clause of
C09.1; C10.3 the per-server helper reports every instance it put back on every
exit a placement can reach, has_apps is a snapshot taken before the removal,
and a recorded identity (0 included) is taken back unconditionally (shared
with C11.4). Fourth round: C10.1 also requires the before/after snapshots to
bracket every placement mutator and a failed restore to delete its record
(shared with C09.3 / C09.4).
Sweep: C10.1 the delete pass and the create pass of a publication are never cut short (shared with C09.3); C10.3 the repair at restart visits every entry of the integrity map and every server of an entry (loops never cut short).
Fifth round: C10.2 the start-up delete pass runs after the start-up cycle (shared with C09.1); C10.3 masterapi.delete_server removes the placement records of the server on every path.
Sixth round: C10.3 every read of the store on the restore path sits in a try block that handles ObjectNotFoundError (no look-before-you-read), and delete_server tells the master only after its deletions.
Seventh round: C10.1 instances leave the cell only through remove_app of the master (which deletes the record); C10.3 a kept placement is revalidated against label, traits and state for every instance, blacklisted or not (shared with C03.1).
Eighth round: C10.3 a node that comes back is reloaded, not loaded as new (shared presence clause of C08.5), and reload_server drops a server for good only without a record (shared with C09.4).
Tenth round: C10.3 after the integrity check deleted the record its map names, the map is moved to the record that was kept before the walk goes on (the cross-check reads the map; F32, repaired in /repo).
Does NOT decide that a restarted master completes start-up and republishes a
placement equal to its model (behaviour of a run; see C09/C11).
"""

ASSUMPTIONS = [
    'each backend call is one storage write; a crash falls between two '
    'writes',
]

MIN_OBLIGATIONS = 8
MIN_PER_RULE = {'C10.1': 2, 'C10.2': 2, 'C10.3': 3}


def run(ctx, r1='C10.1', r2='C10.2', r3='C10.3'):
    master, routines = M.publication_routines(ctx)
    ctx.require(len(routines) >= 2, 'publication routines of the master '
                                    '(found %s)' % [f.qualname
                                                    for f in routines],
                                                        rule=r3)
    nz = N.Normaliser()
    for func in routines:
        graph, ops = M.record_ops(ctx, func)
        writes = [n for n, op, _r, _c in ops if op in ('put', 'update')]
        dels = [n for n, op, _r, _c in ops if op == 'delete']
        for wnode in writes:
            after = C.reach_after(wnode, edge_ok=C.no_exc)
            hit = [d for d in dels if d in after]
            path = None
            if hit:
                path = K.find_path(wnode, hit, follow_exc=False)
            ctx.ob(r1, func, wnode, not hit,
                   'no placement record is deleted after a record was '
                   'written in the same publication (removals first)'
                   if not hit else
                   'a record delete (%s) is reachable after this write: a '
                   'stop in between leaves the old and the new record' %
                   hit[0].text(60),
                   path=K.describe(path) if path else None)
        # pass-1 condition
        facts = N.must_facts(graph, nz)
        for dnode in dels:
            loop = K.enclosing_for(graph, dnode)
            names = N.for_targets(loop) if loop is not None else set()
            mine = set(f for f in N.raw_only(facts[dnode])
                       if f.mentions & names)
            if func.name == 'reschedule':
                bname, aname = M.before_after(loop)
                want = {N.Atom(('truth', bname, True)),
                        N.cmp_atom(ast.Name(id=bname), '!=',
                                   ast.Name(id=aname))}
                ctx.ob(r2, func, dnode, mine == want,
                       'the removal pass is guarded by exactly `before and '
                       'before != after`: every relocation has its delete '
                       'in pass 1 (facts: %s)' % sorted(
                           N.show(f) for f in mine))
            else:
                ctx.ob(r2, func, dnode, not mine,
                       'the start-up removal pass has no per-record '
                       'condition besides its domain (facts: %s)' %
                       sorted(N.show(f) for f in mine))
    restart_repair(ctx, r3)
    # shared with C09.1: the start-up reconciliation of a new master covers
    # every server that has stored records and removes exactly the records
    # the model does not hold
    from . import c09
    c09._startup(ctx, master, rule=r2)


def restart_repair(ctx, r3='C10.3'):
    """An instance recorded under several servers at a restart is taken off
    every one of them, in the model (Server.remove: capacity and affinity
    counters) and in the store alike - shared with C01.9 and C04.1."""
    nz = N.Normaliser()
    # restart handling
    loader = ctx.index.get_class(K.LOADER, 'Loader')
    func = loader.methods.get('restore_placements')
    ctx.require(func is not None, 'Loader.restore_placements')
    graph, ops = M.record_ops(ctx, func)
    dels = [(n, r) for n, op, r, _c in ops if op == 'delete']
    if not dels:
        ctx.fail(r3, func, None,
                 'the records of an instance found under several servers '
                 'are never deleted at restart',
                 construct='record delete in restore_placements')
        return
    facts = N.must_facts(graph, nz)
    for dnode, rec in dels:
        inner = K.enclosing_for(graph, dnode, rec[0])
        ctx.require(inner is not None, 'loop over the servers of an entry',
            rule=r3)
        outer = None
        for cand in graph.nodes:
            if cand.kind == 'for' and cand is not inner and \
                    inner in K.loop_body_nodes(cand):
                outer = cand
        ctx.require(outer is not None, 'loop over the integrity map', rule=r3)
        entry_vars = sorted(N.for_targets(outer))
        dom = N.txt(inner.ast.iter)
        ctx.ob(r3, func, inner, dom in entry_vars,
               'the repair ranges over every server of the entry (%s)' %
               dom, construct='repair loop domain')
        # every entry and every server of it: an entry that needs no repair
        # does not end the pass
        K.exhaustive_loop(ctx, r3, func, outer, 'repair pass over the '
                          'integrity map')
        K.exhaustive_loop(ctx, r3, func, inner, 'repair of one duplicated '
                          'instance')
        # every iteration removes from the model and deletes the record
        body = K.loop_body_nodes(inner)

        def removes(node):
            return any(K.is_meth(c, 'remove') and c.args and
                       N.txt(c.args[0]) == rec[1]
                       for c in C.node_calls(node))
        for what, pred in (('removes the instance from that server',
                            removes),
                           ('deletes that record', lambda n: n is dnode)):
            path = K.find_path(inner, [inner], cut_node=pred,
                               cut_edge=lambda e: e.src is inner and
                               e.kind == 'done', follow_exc=False)
            ctx.ob(r3, func, inner, path is None,
                   'for each server of a duplicated instance the repair '
                   '%s (no filter inside the loop)' % what,
                   path=K.describe(path) if path else None,
                   construct='repair iteration %s' % what)
        # guarded by more than one server
        lenatom = [f for f in facts[inner] if f.key[0] == 'cmp' and
                   any('len(' in t for t, _c in f.key[2])]
        ok = False
        for fact in lenatom:
            op, lin = fact.key[1], dict(fact.key[2])
            lterm = [t for t in lin if t.startswith('len(')][0]
            const = lin.get('', 0)
            coeff = lin[lterm]
            # len(servers) > 1  <=>  -len + 1 < 0  /  len - 1 > 0 ...
            if coeff < 0 and op == '<' and const == 1:
                ok = True
            if coeff < 0 and op == '<=' and const == 2:
                ok = True
        others = [f for f in N.raw_only(facts[inner])
                  if f not in lenatom and
                  f.mentions & set(entry_vars)]
        ctx.ob(r3, func, inner, ok and not others,
               'the repair applies exactly to entries with more than one '
               'server (facts: %s)' % sorted(N.show(f)
                                             for f in facts[inner]),
               construct='repair guard len(servers) > 1')
    # the integrity map records every restored placement
    ok = False
    calls = K.nodes_calling(graph, lambda c: K.is_meth(c, 'restore_placement')
                            and K.recv_text(c) == 'self' and c.args)
    for cnode, call in calls:
        sloop = K.enclosing_for(graph, cnode)
        if sloop is None or N.txt(sloop.ast.iter) not in (
                'self.servers', 'self.servers.keys()', 'list(self.servers)',
                'six.iterkeys(self.servers)'):
            continue
        svar = N.txt(sloop.ast.target)
        if N.txt(call.args[0]) != svar or \
                N.raw_only(f for f in facts[cnode]
                           if svar in f.mentions):
            continue
        # the restored list: second component of the result
        stmt = cnode.ast
        rname = None
        if isinstance(stmt, ast.Assign) and \
                isinstance(stmt.targets[0], ast.Tuple) and \
                len(stmt.targets[0].elts) == 2 and stmt.value is call:
            rname = N.txt(stmt.targets[0].elts[1])
        elif isinstance(stmt, ast.Assign) and \
                isinstance(stmt.value, ast.Subscript) and \
                stmt.value.value is call and \
                N.txt(stmt.value.slice) == '1':
            rname = N.txt(stmt.targets[0])
        for inner in graph.nodes:
            if inner.kind != 'for' or inner not in K.loop_body_nodes(sloop):
                continue
            it = inner.ast.iter
            direct = isinstance(it, ast.Subscript) and it.value is call \
                and N.txt(it.slice) == '1'
            if not (direct or (rname and N.txt(it) == rname)):
                continue
            avar = N.txt(inner.ast.target)
            for node in K.loop_body_nodes(inner):
                for app in C.node_calls(node):
                    if not (K.is_meth(app, 'append') and app.args and
                            N.txt(app.args[0]) == svar):
                        continue
                    recv = K.recv(app)
                    keyed = isinstance(recv, ast.Subscript) and \
                        N.txt(recv.slice) == avar and \
                        N.txt(recv.value) or (
                            isinstance(recv, ast.Call) and
                            K.is_meth(recv, 'setdefault') and
                            len(recv.args) == 2 and
                            N.txt(recv.args[0]) == avar and
                            N.txt(recv.args[1]) in ('[]', 'list()') and
                            K.recv_text(recv))
                    cond = [f for f in N.raw_only(facts[node])
                            if f.mentions & {avar, svar}]
                    if keyed and not cond and any(
                            keyed in N.txt(d.ast.iter)
                            for d in graph.nodes if d.kind == 'for' and
                            d is not sloop and d is not inner):
                        ok = True
    ctx.ob(r3, func, None, ok,
           'the integrity map is built from every server and every '
           'restored instance', construct='integrity map construction')
    _feeder(ctx, loader, nz, r3)



def _server_deletion(ctx, rule='C10.3'):
    """Deleting a server through the API removes the records under it on
    every path: Loader.remove_server un-places its instances in the model
    only and relies on that - records left behind are not seen as "before"
    by the next publication, which then creates the new records next to
    them."""
    mod = ctx.index.module('treadmill.scheduler.masterapi')
    func = mod.functions.get('delete_server') if mod else None
    ctx.require(func is not None, 'masterapi.delete_server')
    graph = ctx.cfg(func)

    def drops(node):
        for call in C.node_calls(node):
            if K.callee_text(call).endswith('ensure_deleted') or \
                    K.is_meth(call, 'delete', 'ensure_deleted'):
                if any('path.placement(' in K.rtxt(func, a)
                       for a in call.args):
                    return True
        return False
    sites = [n for n in graph.nodes if drops(n)]
    skip = K.find_path(graph.entry, [graph.exit], cut_node=drops,
                       follow_exc=False)
    ctx.ob(rule, func, sites[0] if sites else None,
           bool(sites) and skip is None,
           'delete_server removes the placement records of the server on '
           'every path', path=K.describe(skip) if skip else None,
           construct='server deletion drops its records')
    # the master is told only when the deletion is complete: it decides what
    # to do with the server by reading its record when it serves the event
    # (a record still there means "nothing changed")
    def drops_any(node):
        return any(K.callee_text(c).endswith('ensure_deleted') or
                   K.is_meth(c, 'delete', 'ensure_deleted')
                   for c in C.node_calls(node))
    events = [n for n, c in K.nodes_calling(
        graph, lambda c: K.callee_text(c).endswith('create_event'))]
    late = [n for n in graph.nodes if drops_any(n) and any(
        n in C.reach_after(e, edge_ok=C.no_exc) for e in events)]
    ctx.ob(rule, func, late[0] if late else (events[0] if events else None),
           bool(events) and not late,
           'the servers event is created after every deletion of '
           'delete_server', construct='event after the deletions')


def _tolerant_reads(ctx, rule='C10.3'):
    """The restart works on a store that other parties keep changing (a node
    loses its presence, an admin deletes a server): every read of the store
    on the restore path is prepared for the node to be gone - it sits in a
    try block that handles ObjectNotFoundError.  A read that is not (a
    look-before-you-read test does not help: the node can vanish in
    between) lets the error escape to a handler that drops the whole server
    from the model while its records stay, or ends the start-up."""
    loader = ctx.index.get_class(K.LOADER, 'Loader')
    seen = 0
    from . import c11
    root = loader.methods.get('restore_placement')
    ctx.require(root is not None, 'Loader.restore_placement', rule=rule)
    # restore_placement and the private readers it calls on self (not the
    # placement routines and not remove_app / the publication helpers)
    closure = c11._closure(ctx.index, loader, root)
    for name, func in sorted(closure.items()):
        if func is not root and not name.split('.')[-1].startswith(
                ('get_', '_get', '_read', '_presence')):
            continue
        name = name.split('.')[-1]
        parents = {}
        # the view: private helpers are spliced in, with their try blocks
        for node in K.walk_no_nested(func.node):
            for child in ast.iter_child_nodes(node):
                parents[child] = node
            for child in getattr(node, '_inline_body', None) or ():
                parents[child] = node

        def guarded(call):
            cur = call
            while cur in parents:
                par = parents[cur]
                if isinstance(par, ast.Try) and any(
                        cur is st for st in par.body) and any(
                            h.type is None or
                            'ObjectNotFoundError' in N.txt(h.type)
                            for h in par.handlers):
                    return True
                cur = par
            return False
        for call in K.walk_no_nested(func.node):
            if isinstance(call, ast.Call) and K.is_meth(
                    call, 'get', 'get_with_metadata', 'list') and \
                    (K.recv_text(call) or '').endswith('backend'):
                seen += 1
                ctx.ob(rule, func, call, guarded(call),
                       'the read %s is prepared for the node to be gone '
                       '(ObjectNotFoundError handled around it)'
                       % N.txt(call)[:60],
                       construct='tolerant read in %s' % name)
    ctx.require(seen >= 3, 'store reads on the restore path (found %d)'
                % seen, rule=rule)



def _integrity_repair(ctx):
    """C10.3: the running master does not fail its own integrity check on a
    state it has just repaired.  The check walks the stored records, keeps
    in a map the server each instance was first seen under, deletes the
    record that disagrees with the model when an instance is met twice, and
    then cross-checks the model against *that map*.  When the record deleted
    is the one the map names, the map must be moved to the record that was
    kept - otherwise the cross-check reads the server that was just removed,
    reports a corrupted placement and the master exits although the store is
    consistent again."""
    loader = ctx.index.get_class(K.LOADER, 'Loader')
    func = loader.methods.get('check_placement_integrity')
    if func is None:
        return
    graph = ctx.cfg(func)
    # the map: a local dict subscripted by the instance and read by the
    # cross-check (compared with <app>.server)
    maps = set()
    for sub in K.walk_no_nested(func.node):
        if isinstance(sub, ast.Compare) and len(sub.ops) == 1:
            for side in (sub.left, sub.comparators[0]):
                if isinstance(side, ast.Subscript) and isinstance(
                        side.value, ast.Name) and any(
                            N.txt(o).endswith('.server')
                            for o in (sub.left, sub.comparators[0])
                            if o is not side):
                    maps.add(side.value.id)
    if not maps:
        return
    aliases = {}
    for gn in graph.nodes:
        if gn.kind == 'stmt' and isinstance(gn.ast, ast.Assign) and \
                len(gn.ast.targets) == 1 and \
                isinstance(gn.ast.targets[0], ast.Name):
            aliases.setdefault(gn.ast.targets[0].id, []).append(
                N.txt(gn.ast.value))
    judged = 0
    for node in graph.nodes:
        for call in C.node_calls(node):
            if not (K.is_meth(call, 'delete') and call.args):
                continue
            arg = N.txt(call.args[0])
            named = [m for m in maps if '%s[' % m in arg]
            if not named:
                # ... or through a local holding what the map names
                # (first_seen = app2server[app] / app2server.get(app))
                for nm in N.mentions(call.args[0]):
                    for m in maps:
                        if any(b.startswith(('%s[' % m, '%s.get(' % m))
                               for b in aliases.get(nm, ())) and \
                                len(aliases.get(nm, ())) == 1:
                            named.append(m)
            if not named:
                continue
            # the record deleted is the one the map names: before the walk
            # goes on (next record, next server, or the cross-check) the map
            # entry is stored again
            mname = named[0]
            judged += 1
            loop = K.enclosing_for(graph, node)
            restores = [n for n in graph.nodes if n.kind == 'stmt' and
                        isinstance(n.ast, ast.Assign) and any(
                            isinstance(t, ast.Subscript) and
                            N.txt(t.value) == mname
                            for t in n.ast.targets)]
            goals = [loop] if loop is not None else [graph.exit]
            path = K.find_path(node, goals,
                               cut_node=lambda n: n in restores,
                               follow_exc=False)
            ctx.ob('C10.3', func, node, path is None,
                   'after the record the map names was deleted the map is '
                   'moved to the record that was kept (the cross-check '
                   'reads the map)' if path is None else
                   'the record %s names is deleted and the map keeps naming '
                   'it: the cross-check that follows compares the model '
                   'with the removed server and the master fails its own '
                   'integrity check on a store it has just repaired' % mname,
                   path=K.describe(path) if path else None,
                   construct='integrity map follows the repair')
    ctx.require(judged >= 1, 'repair delete of the record the integrity map '
                'names', rule='C10.3', func=func)


def check(ctx):
    run(ctx)
    _integrity_repair(ctx)
    _server_deletion(ctx)
    _tolerant_reads(ctx)
    # shared with C09.4 / C11.4: what the new master needs to complete its
    # start-up on the stored state - a replaced server gets its recorded
    # placement back, and a recorded identity (0 included) is taken back
    from . import c09, c11
    with ctx.shared({'C09': 'C10.3', 'C11': 'C10.3'}):
        c09._reload(ctx)
        c11.forced_identity(ctx)
    # shared with C09.3: pass 1 of a publication can only delete what the
    # cycle reported as the old server - a placement change made outside the
    # before/after snapshots is created in pass 2 without its delete
    from . import sched_model as SM
    SM.snapshot_brackets(ctx, 'C10.1')
    # shared with C09.4: a placement that restore_placement could not put
    # back has its record deleted at once (the next cycle places the
    # instance elsewhere without knowing about the old record)
    with ctx.shared({'C09': 'C10.1'}):
        c09.writer_callers(ctx, ctx.index.get_class(K.MASTER, 'Master'),
                           rule='C10.1')
        # an instance leaves the model (and with it its placement) only
        # through Loader.remove_app, which the master overrides to delete
        # the record first - and instances are taken off a server outside a
        # cycle only by the routines that deal with the records
        c09._removal(ctx, ctx.index.get_class(K.MASTER, 'Master'))
        c09.unplacement_callers(ctx, ctx.index.get_class(K.MASTER, 'Master'),
                                rule='C10.1')
    # shared with C03.4: the first pass of a cycle looks at every placed
    # instance - the passes after it index the member servers by what is
    # left in app.server, so an instance it passes over (its server left the
    # cell) ends the start-up cycle of a new master with an error
    from . import c03
    with ctx.shared({'C03': 'C10.3'}):
        c03._revalidation(ctx, N.Normaliser())
    # shared with C08.5: a node that comes back is reloaded (kept when
    # nothing changed, replaced with its recorded placement restored
    # otherwise) - loading it "as new" forgets the instances the model still
    # has on it while their records stay, and the next cycle records them a
    # second time
    from . import c08
    with ctx.shared({'C08': 'C10.3'}):
        c08._presence(ctx)


def _feeder(ctx, loader, nz, rule='C10.3'):
    """The per-server helper reports every instance it put back on the
    server - verbatim or with a re-evaluated lease - so the duplicate
    detection of restore_placements sees all holders."""
    func = loader.methods.get('restore_placement')
    ctx.require(func is not None, 'Loader.restore_placement')
    graph = ctx.cfg(func)
    rets = [n for n in graph.nodes if n.kind == 'return' and
            isinstance(n.ast.value, ast.Tuple) and
            len(n.ast.value.elts) == 2]
    ctx.require(rets, 'return (placed, restored) of restore_placement',
        rule=rule)
    places = [(n, c) for n, c in K.nodes_calling(
        graph, lambda c: K.is_meth(c, 'restore', 'put') and c.args and
        not (K.recv_text(c) or '').endswith('backend'))]
    ctx.require(places, 'placements in restore_placement', rule=rule)

    def empty_display(expr):
        return (isinstance(expr, (ast.List, ast.Tuple)) and
                not expr.elts) or (
                    isinstance(expr, ast.Call) and
                    K.callee_text(expr) == 'list' and not expr.args)
    # an exit taken before anything was put back may return a fresh empty
    # list; every exit a placement can reach returns the one collected list
    early = [r for r in rets if empty_display(r.ast.value.elts[1]) and
             not any(K.find_path(n, [r], follow_exc=False)
                     for n, _c in places)]
    names = set(N.txt(r.ast.value.elts[1]) for r in rets if r not in early)
    ctx.ob(rule, func, rets[0], len(names) == 1,
           'one list of restored instances is returned on every exit a '
           'placement can reach: %s' % sorted(names),
           construct='restored list')
    ctx.require(names, 'restored list of restore_placement', rule=rule)
    lst = sorted(names)[0]
    for node, call in places:
        loop = K.enclosing_for(graph, node)
        ctx.require(loop is not None, 'loop over the recorded instances',
            rule=rule)
        var = sorted(N.for_targets(loop))[0]
        result = None
        if node.kind == 'stmt' and isinstance(node.ast, ast.Assign) and \
                isinstance(node.ast.targets[0], ast.Name):
            result = node.ast.targets[0].id

        def appended(cur, var=var):
            return any(K.is_meth(c, 'append') and K.recv_text(c) == lst and
                       c.args and N.txt(c.args[0]) == var
                       for c in C.node_calls(cur))

        def failed(atom, result=result):
            return result is not None and atom.key[0] == 'truth' and \
                not atom.key[2] and atom.key[1] == result
        path = K.find_path_cp(
            graph, node, [loop, graph.exit], cut_node=appended,
            cut_edge=lambda e: K.edge_establishes(ctx, func, nz, e, failed),
            follow_exc=False)
        ctx.ob(rule, func, node, path is None,
               'an instance put back on the server is reported in %s unless '
               'the placement failed' % lst,
               path=K.describe(path) if path else None,
               construct='reported: ' + node.text(50))


_M = 'lib/python/treadmill/scheduler/master.py'
_L = 'lib/python/treadmill/scheduler/loader.py'

MUTANTS = [
    ('revert-F32-integrity-map-keeps-the-deleted-record', [(_L, """                    # The record that is kept is the one under this server.
                    app2server[app] = server
""", "")], 'C10.3'),
    ('reschedule-single-pass', [(_M, """        for app, before, _exp_before, after, _exp_after in changed_placement:
            if before and before != after:
                _LOGGER.info('Unscheduling: %s - %s', before, app)
                self.backend.delete(z.path.placement(before, app))

        for app, before, _exp_before, after, exp_after in changed_placement:
            placement_data = self._placement_data(app)
""", """        for app, before, _exp_before, after, exp_after in changed_placement:
            if before and before != after:
                _LOGGER.info('Unscheduling: %s - %s', before, app)
                self.backend.delete(z.path.placement(before, app))

            placement_data = self._placement_data(app)
""")], 'C10.1'),
    ('reschedule-creates-first', [(_M, """                self.backend.put(
                    z.path.placement(after, app),
                    placement_data
                )
                self._update_task(app, after, why=why)
            else:
                self._update_task(app, None, why=why)
""", """                self.backend.put(
                    z.path.placement(after, app),
                    placement_data
                )
                self._update_task(app, after, why=why)
            else:
                self._update_task(app, None, why=why)
            if before and after and before != after and not why:
                self.backend.delete(z.path.placement(before, app))
""")], 'C10.1'),
    ('startup-single-pass', [(_M, """            for app in current - correct:
                _LOGGER.info('Unscheduling: %s - %s', servername, app)
                self.backend.delete(os.path.join(placement_node, app))
""", """            for app in current - correct:
                _LOGGER.info('Unscheduling: %s - %s', servername, app)
                self.backend.delete(os.path.join(placement_node, app))
            for app in correct - current:
                self.backend.put(os.path.join(placement_node, app),
                                 self._placement_data(app))
""")], 'C10.1'),
    ('removal-skips-unknown-server', [(_M, """            if before and before != after:
                _LOGGER.info('Unscheduling: %s - %s', before, app)
""", """            if before and before != after and \\
                    before in self.cell.members():
                _LOGGER.info('Unscheduling: %s - %s', before, app)
""")], 'C10.2'),
    ('removal-only-when-replaced', [(_M, """            if before and before != after:
                _LOGGER.info('Unscheduling: %s - %s', before, app)
""", """            if before and after and before != after:
                _LOGGER.info('Unscheduling: %s - %s', before, app)
""")], 'C10.2'),
    ('repair-keeps-model-server', [(_L, """            for servername in servers:
                self.servers[servername].remove(appname)
                self.backend.delete(z.path.placement(servername, appname))
""", """            for servername in servers:
                if self.cell.apps[appname].server == servername:
                    continue
                self.servers[servername].remove(appname)
                self.backend.delete(z.path.placement(servername, appname))
""")], 'C10.3'),
    ('repair-keeps-first', [(_L, """            for servername in servers:
                self.servers[servername].remove(appname)
""", """            for servername in servers[1:]:
                self.servers[servername].remove(appname)
""")], 'C10.3'),
    ('repair-model-only', [(_L, """                self.servers[servername].remove(appname)
                self.backend.delete(z.path.placement(servername, appname))
""", """                self.servers[servername].remove(appname)
""")], 'C10.3'),
    ('repair-threshold', [(_L, """            if len(servers) <= 1:
                continue
""", """            if len(servers) <= 2:
                continue
""")], 'C10.3'),
]

REFACTORS = [
    ('repair-positive-guard', [(_L, """            if len(servers) <= 1:
                continue

            _LOGGER.warning(
                'Integrity error: %s placed on %r', appname, servers
            )
            for servername in servers:
                self.servers[servername].remove(appname)
                self.backend.delete(z.path.placement(servername, appname))
""", """            if len(servers) > 1:
                _LOGGER.warning(
                    'Integrity error: %s placed on %r', appname, servers
                )
                for servername in servers:
                    self.backend.delete(
                        z.path.placement(servername, appname))
                    self.servers[servername].remove(appname)
""")]),
    ('reschedule-log-added', [(_M, """                _LOGGER.info('Unscheduling: %s - %s', before, app)
                self.backend.delete(z.path.placement(before, app))
""", """                _LOGGER.info('Unscheduling: %s - %s', before, app)
                path = z.path.placement(before, app)
                self.backend.delete(path)
""")]),
]
