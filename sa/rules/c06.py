"""C06 - the scheduling queue: rank, reservation, priority (structural half)."""

import ast

from .. import cfg as C
from .. import norm as N
from ..index import dotted_text
from . import common as K
from .sched_model import PlacementLoop

EXPLANATION = """
C06.1 the per-allocation sort key normalises to [priority descending,
placed before pending, arrival ascending(, name)] and the sort is ascending.
C06.2 rank decision: unplaced rank iff not util_after <= max_utilization - 1;
boosted rank (rank -= rank_adjustment) iff util_before < 0; otherwise the
allocation's rank.  C06.3 both queue generators override util_before and
util_after with the maximum under priority == 0 (siblings agree).  C06.4
both generators yield the same 6-field layout and every consumer reads
positions that exist and mean rank / utilisation / instance.  C06.5 every
iteration of each generator reaches exactly one yield (no filtering), the
private queue ranges over all of self.apps, the merged queue over every
sub-allocation plus the private queue, and schedule_alloc maps the queue
without a filter.  C06.6 the unplaced-rank symbol written by the producer is
the one compared by the placement loop, whose branch neither places nor
keeps the instance.  C06.7 an explicit manifest priority (0 included) is
honoured: no truthiness default on the numeric field.
Added by the seeding rounds - C06.2 every parameter of Allocation.update is
applied on every path; C06.3 the priority-0 override keys on the instance's
priority; C06.5 single membership (an instance joins a queue only after
leaving app.allocation) and the merge is heapq.merge over every sub-queue plus
the own queue; C06.7 an explicit priority 0 is honoured. Fourth round: C06.5
the join with the given allocation happens on every path of add_app; C06.7 the
assignment table is rebuilt by every load_allocations.
Fifth round: C06.2 the setter of the utilisation cap stores a given value whatever it is and falls back to the default only under is None; C06.7 an allocations event reads the assignment table again before the instances are re-assigned, and always re-assigns them.
Sixth round: C06.2 the accumulated demand of both generators grows by the demand of the current instance once per iteration and is never taken back, and the utilisation after an instance is carried to the next one on every path; C06.5 load_app hands every instance, new or known, to Cell.add_app with the allocation find_assignment returned.
Seventh round: C06.7 assignments are filed and looked up under the same key expression (subscript, .get and `in` forms alike), and an event of the watch batch is dispatched whenever its resource has a handler - nothing else decides.
Eighth round: C06.5 the routine that schedules a partition hands its queue to the placement loop on every path (no fast path before it); C06.7 the pattern compiled for an assignment is the recorded pattern followed by '#' and ten digits.
Ninth round: C06.2 every utilisation of the private generator is computed against self.reserved (the total reservation belongs to the merged queue).
Tenth round: C06.7 every load of the allocations ends with an assignment table of its own, also the load that finds no allocation (F27; repaired in /repo); C06.2 the cap given to the Allocation constructor is what the last cap-setting call of the constructor stores (F28; repaired in /repo).
Does NOT decide rank monotonicity and per-allocation order through the
recursive re-scored merge (numeric, depends on the whole tree) - the larger
half of the property.
"""

ASSUMPTIONS = [
    'heapq.merge yields every element of every input exactly once',
    'sorted() is an ascending stable sort',
]

MIN_OBLIGATIONS = 20
MIN_PER_RULE = {'C06.1': 3, 'C06.2': 3, 'C06.3': 4, 'C06.4': 4, 'C06.5': 5,
                'C06.6': 2, 'C06.7': 1}


def _yield_loops(graph):
    """The for-loops of a generator whose body yields."""
    out = []
    for node in graph.nodes:
        if node.kind != 'for':
            continue
        if any(isinstance(s, ast.Yield) for stmt in node.ast.body
               for s in ast.walk(stmt)):
            out.append(node)
    return out


def _generators(ctx):
    alloc = ctx.index.get_class(K.SCHED, 'Allocation')
    gens = [f for f in alloc.live_methods() if any(
        isinstance(s, ast.Yield) for s in K.walk_no_nested(f.node))]
    ctx.require(len(gens) == 2, 'two queue generators in Allocation '
                                '(found %d)' % len(gens))
    priv = K.one([g for g in gens if 'sorted(' in ast.unparse(g.node) and
                  'self.apps' in ast.unparse(g.node)],
                 'generator sorting the allocation own instances')
    merged = K.one([g for g in gens if g is not priv], 'merging generator')
    return alloc, priv, merged


def _sort_key(ctx, priv):
    call = None
    for sub in K.walk_no_nested(priv.node):
        if isinstance(sub, ast.Call) and dotted_text(sub.func) == 'sorted':
            call = sub
    ctx.require(call is not None, 'sorted() in %s' % priv.qualname,
        rule='C06.1')
    rev = K.kwarg(call, 'reverse')
    ctx.ob('C06.1', priv, call,
           rev is None or (isinstance(rev, ast.Constant) and not rev.value),
           'ascending sort')
    keyfunc, param, tup = K.sort_key_tuple(ctx.index, priv, call)
    ctx.require(isinstance(tup, ast.Tuple), 'tuple sort key', rule='C06.1')
    elts = tup.elts
    e0 = len(elts) > 0 and isinstance(elts[0], ast.UnaryOp) and \
        isinstance(elts[0].op, ast.USub) and \
        N.txt(elts[0].operand) == '%s.priority' % param
    ctx.ob('C06.1', keyfunc or priv, tup, e0,
           'first key: priority descending (-%s.priority)' % param,
           construct='key[0]')
    e1 = len(elts) > 1 and K.placed_first(ctx.index, keyfunc or priv,
                                          elts[1], param)
    ctx.ob('C06.1', keyfunc or priv, tup, e1,
           'second key: placed before pending', construct='key[1]')
    e2 = len(elts) > 2 and N.txt(elts[2]) == '%s.global_order' % param
    ctx.ob('C06.1', keyfunc or priv, tup, e2,
           'third key: arrival order ascending (%s.global_order)' % param,
           construct='key[2]')
    # the sorted domain is all instances of the allocation
    dom = N.txt(call.args[0]) if call.args else ''
    ctx.ob('C06.5', priv, call, 'self.apps' in dom and ' if ' not in dom,
           'the private queue ranges over all of self.apps: %s' % dom,
           construct='sorted domain')


def _rank(ctx, priv):
    """Path-sensitive: product of the generator's CFG with
    (rank value in {unset, unplaced, base, boosted, other}) x
    (cap in {T, F, ?}) x (boost in {T, F, ?}); at the construction of the
    entry the rank must be the one the two tests call for."""
    nz = N.Normaliser()
    graph = ctx.cfg(priv)
    # the locals by their position in the entry the generator yields:
    # (rank, utilisation before, utilisation after, ...)
    etup = _entry_tuple(ctx, priv, quiet=True)
    rvar, ubef, uaft = 'rank', 'util_before', 'util_after'
    if etup is not None and len(etup.elts) >= 3 and all(
            isinstance(e, ast.Name) for e in etup.elts[:3]):
        rvar, ubef, uaft = [e.id for e in etup.elts[:3]]
    cap = N.cmp_atom(ast.Name(id=uaft), '<=',
                     ast.parse('self.max_utilization - 1',
                               mode='eval').body)
    boost = N.cmp_atom(ast.Name(id=ubef), '<',
                       ast.Constant(value=0))
    lin_base = N.linear(ast.parse('self.rank', mode='eval').body)
    lin_boost = N.linear(ast.parse('self.rank - self.rank_adjustment',
                                   mode='eval').body)
    lin_unpl = N.linear(ast.Name(id='_UNPLACED_RANK'))
    loops = _yield_loops(graph)
    head = K.one(loops, 'queue loop of %s' % priv.qualname)

    def classify(expr, cur):
        try:
            lin = N.linear(expr)
        except Exception:      # pylint: disable=broad-except
            return 'other'
        if lin == lin_unpl:
            return 'unplaced'
        if lin == lin_base:
            return 'base'
        if lin == lin_boost:
            return 'boosted'
        if cur == 'base' and lin == N.linear(ast.parse(
                '%s - self.rank_adjustment' % rvar, mode='eval').body):
            return 'boosted'
        return 'other'

    def step(edge, state):
        if edge.kind == 'exc':
            return []
        rank, capv, boostv = state
        node = edge.src
        if node is head:
            if edge.kind != 'iter':
                return []
            return [('unset', '?', '?')]
        if node.kind == 'test' and edge.kind in ('true', 'false'):
            for atom in nz.facts_of_edge(edge):
                if atom == cap:
                    capv = 'T'
                elif atom == N.negate(cap):
                    capv = 'F'
                elif atom == boost:
                    boostv = 'T'
                elif atom == N.negate(boost):
                    boostv = 'F'
        if node.kind == 'stmt':
            stmt = node.ast
            if isinstance(stmt, ast.Assign):
                for tgt in stmt.targets:
                    names = [n.id for n in ast.walk(tgt)
                             if isinstance(n, ast.Name)]
                    if uaft in names:
                        capv = '?'
                    if ubef in names:
                        boostv = '?'
                    if N.txt(tgt) == rvar:
                        rank = classify(stmt.value, rank)
            elif isinstance(stmt, ast.AugAssign) and \
                    N.txt(stmt.target) == rvar:
                if isinstance(stmt.op, ast.Sub) and rank == 'base' and \
                        N.txt(stmt.value) == 'self.rank_adjustment':
                    rank = 'boosted'
                else:
                    rank = 'other'
        return [(rank, capv, boostv)]
    reached = C.explore(graph, [('unset', '?', '?')], step, start=head)
    builds = [n for n in graph.nodes if n.kind == 'stmt' and
              isinstance(n.ast, ast.Assign) and
              isinstance(n.ast.value, ast.Tuple) and n.ast.value.elts and
              N.txt(n.ast.value.elts[0]) == rvar]
    builds += [n for n in graph.nodes if n.kind == 'stmt' and any(
        isinstance(s, ast.Yield) and isinstance(s.value, ast.Tuple) and
        s.value.elts and N.txt(s.value.elts[0]) == rvar
        for s in ast.walk(n.ast))]
    ctx.require(builds, 'construction of the queue entry (rank first) in '
                        '%s' % priv.qualname, rule='C06.2')
    want = {('F', 'T'): 'unplaced', ('F', 'F'): 'unplaced',
            ('F', '?'): 'unplaced', ('T', 'T'): 'boosted',
            ('T', 'F'): 'base'}
    for build in builds:
        states = sorted(set(st for (node, st) in reached if node is build))
        ctx.require(states, 'entry construction reachable', rule='C06.2')
        seen = set()
        for rank, capv, boostv in states:
            expect = want.get((capv, boostv))
            ok = expect is not None and rank == expect
            seen.add(rank)
            path = None
            if not ok:
                path = K.describe(C.witness(reached,
                                            (build, (rank, capv, boostv))))
            ctx.ob('C06.2', priv, build, ok,
                   'rank is %s when util_after <= max_utilization - 1 is %s '
                   'and util_before < 0 is %s (unplaced iff over the cap; '
                   'the adjustment exactly within the reservation)' % (
                       rank, capv, boostv), path=path,
                   construct='rank decision cap=%s boost=%s' % (capv,
                                                                boostv))
        ctx.ob('C06.2', priv, build,
               {'unplaced', 'base', 'boosted'} <= seen,
               'all three ranks occur: %s' % sorted(seen),
               construct='rank cases')


def _sentinel(ctx, priv, merged):
    nz = N.Normaliser()
    for func in (priv, merged):
        graph = ctx.cfg(func)
        facts = N.must_facts(graph, nz)
        found = set()
        for node in graph.nodes:
            if node.kind == 'stmt' and isinstance(node.ast, ast.Assign) and \
                    N.txt(node.ast.value) == '_MAX_UTILIZATION':
                tgt = N.txt(node.ast.targets[0])
                ok = any(f.key[0] == 'cmp' and f.key[1] == '==' and
                         any(t.endswith('.priority') for t, _c in f.key[2])
                         and len(f.key[2]) == 1 for f in facts[node])
                found.add(tgt)
                ctx.ob('C06.3', func, node, ok,
                       '%s forced to the maximum exactly under priority == 0'
                       % tgt)
        etup = _entry_tuple(ctx, func, quiet=True)
        want = {'util_before', 'util_after'}
        if etup is not None and len(etup.elts) >= 3:
            want = {N.txt(etup.elts[1]), N.txt(etup.elts[2])}
        ctx.ob('C06.3', func, None, found == want,
               'priority-0 sentinel covers both utilisation positions of '
               'the entry (found %s)' % sorted(found),
               construct='sentinel fields in %s' % func.name)


def _entry_tuple(ctx, func, quiet=False):
    """The tuple display a generator yields (directly or through one
    local)."""
    yields = [s for s in K.walk_no_nested(func.node)
              if isinstance(s, ast.Yield)]
    tups = []
    for yld in yields:
        val = yld.value
        if isinstance(val, ast.Name):
            defs = [s.value for s in K.walk_no_nested(func.node)
                    if isinstance(s, ast.Assign) and
                    N.txt(s.targets[0]) == val.id]
            val = defs[0] if len(defs) == 1 else None
        tups.append(val if isinstance(val, ast.Tuple) else None)
    if not quiet:
        ctx.ob('C06.4', func, yields[0] if yields else None,
               bool(tups) and all(t is not None for t in tups) and
               len(set(N.txt(t) for t in tups)) == 1,
               'the generator yields one entry tuple',
               construct='yield entry')
    return tups[0] if tups and tups[0] is not None else None


def _layout(ctx, priv, merged):
    ptup = _entry_tuple(ctx, priv)
    mtup = _entry_tuple(ctx, merged)
    ctx.require(ptup is not None and mtup is not None,
                'entry tuples of both generators', rule='C06.4')
    ploop = K.one(_yield_loops(ctx.cfg(priv)), 'queue loop of the private '
                                               'generator')
    appv = sorted(N.for_targets(ploop))[-1]
    pel = ptup.elts
    placed_first = False
    if len(pel) == 6:
        placed_first = K.placed_first(ctx.index, priv,
                                      K.rexpr(priv, pel[3]), appv)
    okp = len(pel) == 6 and isinstance(pel[0], ast.Name) and \
        placed_first and \
        K.rtxt(priv, pel[4]) == '%s.global_order' % appv and \
        N.txt(pel[5]) == appv
    # destructuring in the merge
    targets = None
    mloop = K.one(_yield_loops(ctx.cfg(merged)),
                  'queue loop of the merging generator')
    if isinstance(mloop.ast.target, ast.Tuple):
        targets = [N.txt(e) for e in mloop.ast.target.elts]
    for sub in K.walk_no_nested(merged.node):
        if isinstance(sub, ast.Assign) and isinstance(sub.targets[0],
                                                      ast.Tuple) and \
                isinstance(sub.value, ast.Name):
            if sub.value.id in N.for_targets(mloop):
                targets = [N.txt(e) for e in sub.targets[0].elts]
    mel = [N.txt(e) for e in mtup.elts]
    okm = targets is not None and len(targets) == 6 and len(mel) == 6 and \
        all(mel[i] == targets[i] for i in (0, 3, 4, 5)) and \
        not targets[3].startswith('_') and not targets[4].startswith('_')
    ctx.ob('C06.4', merged, None, okp and okm,
           'both generators yield (rank, util_before, util_after, pending, '
           'order, app): private %s; the merge destructures %s and yields '
           '%s (positions 0, 3, 4, 5 passed through)' % (
               [N.txt(e) for e in pel], targets, mel),
           construct='entry layout')
    # positions 1 and 2: utilisation before / after this entry - position
    # 2 is computed in the iteration, position 1 takes its value for the
    # next one
    for func, tup in ((priv, ptup), (merged, mtup)):
        names = [N.txt(e) for e in tup.elts]
        okrot = False
        if len(names) == 6:
            loop = K.one(_yield_loops(ctx.cfg(func)), 'queue loop')
            assigns = [s for stmt in loop.ast.body for s in ast.walk(stmt)
                       if isinstance(s, ast.Assign) and
                       len(s.targets) == 1]
            # position 1 takes the value of position 2 for the next entry,
            # directly or through a carry variable (p1 = c ... c = p2)
            carriers = set([names[1]]) | set(
                N.txt(s.value) for s in assigns
                if N.txt(s.targets[0]) == names[1] and
                isinstance(s.value, ast.Name))
            rot = [s for s in assigns
                   if N.txt(s.targets[0]) in carriers and
                   N.txt(s.value) == names[2]]
            comp = [s for stmt in loop.ast.body for s in ast.walk(stmt)
                    if isinstance(s, ast.Assign) and
                    N.txt(s.targets[0]) == names[2] and
                    isinstance(s.value, ast.Call) and
                    'utilization' in N.txt(s.value.func)]
            okrot = bool(rot) and bool(comp) and names[1] != names[2]
        ctx.ob('C06.4', func, tup, okrot,
               'position 2 holds the utilisation computed for this entry, '
               'position 1 the one carried over from the previous entry: %s'
               % names[1:3], construct='utilisation positions in %s' %
               func.name)
    ctx.ob('C06.4', merged, None, targets is not None and
           len(targets) == 6,
           'merge destructures the private layout position by position: '
           '%s' % targets, construct='merge destructuring')
    # consumers
    cell = ctx.index.get_class(K.SCHED, 'Cell')
    rec = cell.methods.get('_record_rank_and_util')
    ctx.require(rec is not None, 'Cell._record_rank_and_util')
    # judged on data flow: whatever the locals are called, the attribute
    # stores read positions 0 and 1 of the entry whose last position is the
    # instance
    rloops = [n for n in ctx.cfg(rec).nodes if n.kind == 'for']
    rloop = K.one(rloops, 'loop of _record_rank_and_util')
    target = rloop.ast.target
    pos = {}
    if isinstance(target, ast.Tuple) and len(target.elts) == 6:
        for idx, elt in enumerate(target.elts):
            pos[N.txt(elt)] = idx
    elif isinstance(target, ast.Name):
        for idx in range(6):
            pos['%s[%d]' % (target.id, idx)] = idx
        pos['%s[-1]' % target.id] = 5
    stores = {}
    for sub in K.walk_no_nested(rec.node):
        if isinstance(sub, ast.Assign) and isinstance(sub.targets[0],
                                                      ast.Attribute):
            stores.setdefault(sub.targets[0].attr, []).append((
                pos.get(K.rtxt(rec, sub.targets[0].value)),
                pos.get(K.rtxt(rec, sub.value))))
    ok = stores.get('final_rank') == [(5, 0)] and \
        stores.get('final_util') == [(5, 1)]
    ctx.ob('C06.4', rec, None, ok,
           'consumer stores entry[0] as final_rank and entry[1] as '
           'final_util of the instance entry[-1]: (receiver position, value '
           'position) = %s' % stores,
           construct='positions read by _record_rank_and_util')


def _exactly_once(ctx, priv, merged):
    for func in (priv, merged):
        graph = ctx.cfg(func)
        loops = _yield_loops(graph)
        head = K.one(loops, 'queue loop of %s' % func.qualname)

        def yields(node):
            if node.ast is None:
                return False
            for root in C.node_exprs(node):
                for sub in ast.walk(root):
                    if isinstance(sub, ast.Yield):
                        return True
            return False

        def step(edge, state):
            if edge.kind == 'exc':
                return []
            if edge.src is head and edge.kind == 'iter':
                return [0]
            if yields(edge.src):
                return [min(2, state + 1)]
            return [state]
        reached = C.explore(graph, [0], step, start=head)
        counts = set()
        for edge in K.loop_back_edges(head):
            for (node, state) in reached:
                if node is edge.src:
                    counts |= set(step(edge, state))
        ctx.ob('C06.5', func, head, counts == {1},
               'every iteration yields exactly once (yield counts at the '
               'end of an iteration: %s)' % sorted(counts),
               construct='one yield per element in %s' % func.name)
    # merged queue covers every sub-allocation and the private queue
    loops = _yield_loops(ctx.cfg(merged))
    head = K.one(loops, 'queue loop of %s' % merged.qualname)
    it = K.rexpr(merged, head.ast.iter)
    is_merge = isinstance(it, ast.Call) and \
        K.callee_text(it) == 'heapq.merge' and bool(it.args) and \
        not it.keywords
    ctx.ob('C06.5', merged, head.ast, is_merge,
           'the merged queue iterates heapq.merge(*<queues>): an order-'
           'preserving merge that yields every element of every input '
           '(found %s)' % N.txt(it), construct='merge inputs')
    if is_merge:
        # the inputs, however the argument list is spelled: *queues,
        # *(subs + [own]), positional queues
        parts = []
        for arg in it.args:
            if isinstance(arg, ast.Starred):
                parts.extend(K.sequence_parts(merged, arg.value))
            else:
                parts.extend(K.sequence_parts(merged, ast.List(elts=[arg])))
        subs, own, bad = [], [], []
        for part in parts:
            if 'other' in part:
                bad.append(N.txt(part['other'])[:60])
                continue
            elt = part['elt']
            if isinstance(elt, ast.Call) and \
                    K.is_meth(elt, merged.name) and \
                    len(part['domains']) == 1 and \
                    N.txt(K.recv(elt)) == N.txt(part['domains'][0][0]) and \
                    N.txt(part['domains'][0][1]) in (
                        'six.itervalues(self.sub_allocations)',
                        'self.sub_allocations.values()') and \
                    not part['conditional']:
                subs.append(part)
            elif isinstance(elt, ast.Call) and K.is_meth(elt, priv.name) \
                    and K.recv_text(elt) == 'self' and \
                    not part['domains'] and not part['conditional']:
                own.append(part)
            else:
                bad.append(N.txt(part['node'])[:60])
        ctx.ob('C06.5', merged, subs[0]['node'] if subs else None,
               len(subs) == 1 and not bad,
               'one sub-queue per sub-allocation, unfiltered%s' % (
                   ' - other contributions: %s' % bad if bad else ''),
               construct='queues = [sub.utilization_queue(...) for all '
                         'subs]')
        ctx.ob('C06.5', merged, own[0]['node'] if own else None,
               len(own) == 1 and not bad,
               "the allocation's own queue is one of the merge inputs",
               construct='own queue merged')
    cell = ctx.index.get_class(K.SCHED, 'Cell')
    sa = cell.methods.get('schedule_alloc')
    ctx.require(sa is not None, 'Cell.schedule_alloc')
    placing = [c for c in K.calls(sa.node)
               if K.is_meth(c, '_find_placements') and c.args]
    ctx.require(len(placing) == 1, '_find_placements call in schedule_alloc',
        rule='C06.5')
    qarg = placing[0].args[0]
    ctx.require(isinstance(qarg, ast.Name), 'queue passed to the placement '
                                            'loop is a local', rule='C06.5')

    def from_merged(expr, depth=0):
        """expr denotes all items of allocation.<merged>(...) in order."""
        expr = K.rexpr(sa, expr)
        if isinstance(expr, ast.Call) and K.callee_text(expr) == 'list' \
                and len(expr.args) == 1:
            return from_merged(expr.args[0], depth + 1)
        if isinstance(expr, ast.Call) and K.is_meth(expr, merged.name):
            return True
        if isinstance(expr, ast.Name) and depth < 3:
            parts = K.list_contributions(sa, expr.id)
            return len(parts) == 1 and 'other' not in parts[0] and \
                not parts[0]['conditional'] and \
                len(parts[0]['domains']) == 1 and \
                not parts[0].get('sorted') and (
                    parts[0]['elt'] is None or
                    N.txt(parts[0]['elt']) == N.txt(parts[0]['var'])) and \
                from_merged(parts[0]['domains'][0][1], depth + 1)
        return False
    parts = K.list_contributions(sa, qarg.id)
    domain_of = None
    host = sa
    qdef = K.rexpr(sa, qarg)
    if isinstance(qdef, ast.Call) and K.recv_text(qdef) == 'self' and \
            len(qdef.args) == 1 and not qdef.keywords and \
            cell.methods.get(qdef.func.attr) is not None:
        # the list of instances is built by a helper of the cell that walks
        # the queue it is given (and returns what it collected): judge the
        # helper's loop, with its parameter standing for the argument
        helper = cell.methods[qdef.func.attr]
        rets = [r.value for r in K.walk_no_nested(helper.node)
                if isinstance(r, ast.Return) and r.value is not None]
        hparams = helper.params()
        if len(rets) == 1 and isinstance(rets[0], ast.Name) and \
                len(hparams) == 2:
            hparts = K.list_contributions(helper, rets[0].id)
            if len(hparts) == 1 and len(hparts[0].get('domains', [])) == 1 \
                    and N.txt(hparts[0]['domains'][0][1]) == hparams[1]:
                parts = hparts
                domain_of = qdef.args[0]
                host = helper
    okq = len(parts) == 1 and 'other' not in parts[0] and \
        not parts[0]['conditional'] and len(parts[0]['domains']) == 1 and \
        parts[0]['elt'] is not None and parts[0]['var'] is not None and (
            K.rtxt(host, parts[0]['elt']) in (
                '%s[-1]' % N.txt(parts[0]['var']),
                '%s[5]' % N.txt(parts[0]['var'])) or
            # ... or the entry is destructured where it is iterated and the
            # last position is kept
            (isinstance(parts[0]['var'], ast.Tuple) and
             len(parts[0]['var'].elts) == 6 and
             N.txt(parts[0]['elt']) == N.txt(parts[0]['var'].elts[5])))
    ctx.ob('C06.5', sa, parts[0].get('node') if parts else None, okq,
           'schedule_alloc maps the queue to instances without a filter',
           construct='queue = [item[-1] for item in util_queue]')
    ctx.ob('C06.5', sa, None,
           okq and from_merged(domain_of if domain_of is not None else
                               parts[0]['domains'][0][1]),
           'the placement loop receives the whole merged queue in order',
           construct='schedule_alloc data flow')


def _single_membership(ctx):
    """An instance is queued by one allocation: it joins a queue only
    after it left the allocation it was assigned to before."""
    cell = ctx.index.get_class(K.SCHED, 'Cell')
    nz = N.Normaliser()
    count = 0
    for func in cell.live_methods():
        params = func.params()
        graph = None
        for sub in K.walk_no_nested(func.node):
            if not (isinstance(sub, ast.Call) and K.is_meth(sub, 'add') and
                    len(sub.args) == 1 and
                    isinstance(sub.args[0], ast.Name) and
                    'allocation' in (K.recv_text(sub) or '')):
                continue
            var = sub.args[0].id
            if var not in params:
                continue
            graph = graph or ctx.cfg(func)
            site = [n for n, _c in K.nodes_calling(graph,
                                                   lambda c: c is sub)]
            if not site:
                continue
            count += 1
            cur = '%s.allocation' % var

            def left(edge, cur=cur, var=var, func=func):
                if edge.kind == 'exc':
                    return False
                for call in C.node_calls(edge.src):
                    if K.is_meth(call, 'remove') and call.args and \
                            K.rtxt(func, K.recv(call)) == cur and \
                            K.rtxt(func, call.args[0]) == '%s.name' % var:
                        return True
                for atom in nz.facts_of_edge(edge):
                    key = atom.key
                    if key[0] == 'truth' and not key[2] and key[1] == cur:
                        return True
                    if key[0] == 'is' and key[1] == cur and \
                            key[2] == 'None' and key[3]:
                        return True
                return False
            ok = K.guarded_by(graph, site[0], left)
            ctx.ob('C06.5', func, site[0], ok,
                   'the instance joins an allocation queue only after it '
                   'was removed from the allocation it belonged to '
                   '(%s.remove(%s.name)), so no two queues yield it'
                   % (cur, var),
                   construct='single membership before ' +
                   site[0].text(40))
            # ... and it always joins the allocation it was loaded for (the
            # one naming its partition): no path of the routine skips the
            # join, whatever the instance belonged to before
            skip = K.find_path(graph.entry, [graph.exit],
                               cut_node=lambda n, s=site[0]: n is s,
                               follow_exc=False)
            ctx.ob('C06.5', func, site[0], skip is None,
                   'every call of %s queues the instance with the allocation '
                   'given (an allocation of the same name in another '
                   'partition is another allocation)' % func.name,
                   path=K.describe(skip) if skip else None,
                   construct='join on every path of %s' % func.name)
    ctx.require(count >= 1, '<allocation>.add(<instance>) in Cell',
        rule='C06.5')


def _message_assert(node):
    """The test of `assert '<message>' [% args]` - a branch that was meant
    to reject its input."""
    expr = node.ast
    if node.kind != 'test' or expr is None:
        return False
    if isinstance(expr, ast.BinOp) and isinstance(expr.op, ast.Mod):
        expr = expr.left
    return isinstance(expr, ast.Constant) and isinstance(expr.value, str)


def _parameters_applied(ctx, alloc):
    """The values the queue reads (rank, rank_adjustment, max_utilization,
    reserved) are the ones last configured: Allocation.update assigns each of
    them on every path, directly or through a setter that does - a value of
    None means the default, never 'keep what was there'."""
    upd = alloc.methods.get('update')
    ctx.require(upd is not None, 'Allocation.update')
    graph = ctx.cfg(upd)

    def always_sets(func, attr, depth=0):
        fgraph = ctx.cfg(func)

        def sets(node):
            if any(N.txt(t) == 'self.%s' % attr
                   for t, _v, _k in K.assigns_attr(node)):
                return True
            if depth < 2:
                for call in C.node_calls(node):
                    if K.recv_text(call) == 'self' and \
                            isinstance(call.func, ast.Attribute):
                        callee = ctx.index.find_method(alloc,
                                                       call.func.attr)
                        if callee is not None and callee is not func and \
                                always_sets(callee, attr, depth + 1):
                            return True
            return False
        # a branch that only asserts 'unsupported input' is a rejection
        seen = K.cut_reach(
            fgraph, fgraph.entry,
            cut_node=lambda n: sets(n) or _message_assert(n),
            follow_exc=False)
        return fgraph.exit not in seen
    for attr in ('rank', 'rank_adjustment', 'max_utilization', 'reserved'):
        ctx.ob('C06.2', upd, None, always_sets(upd, attr),
               'Allocation.update assigns %s on every path (an omitted '
               'value means the default, not the previous value)' % attr,
               construct='update applies %s' % attr)


def _cumulative(ctx, priv, merged):
    """C06.2: the utilisation an instance is ranked by is cumulative over
    everything queued before it, whatever became of those: in both
    generators the accumulated demand only grows - by the demand of the
    current instance, once, on every path of an iteration - and the
    utilisation-before of the next instance is the utilisation-after of this
    one on every path (an instance beyond the cap still counts: the ones
    behind it are beyond the cap too)."""
    for func in (priv, merged):
        graph = ctx.cfg(func)
        loops = _yield_loops(graph)
        head = K.one(loops, 'queue loop of %s' % func.qualname)
        body = K.loop_body_nodes(head)
        etup = _entry_tuple(ctx, func, quiet=True)
        ubef, uaft = 'util_before', 'util_after'
        if etup is not None and len(etup.elts) >= 3 and all(
                isinstance(e, ast.Name) for e in etup.elts[1:3]):
            ubef, uaft = [e.id for e in etup.elts[1:3]]
        # the accumulator: first argument of the utilisation computed for
        # the "after" local
        accs = set()
        for node in body:
            if node.kind == 'stmt' and isinstance(node.ast, ast.Assign) and \
                    N.txt(node.ast.targets[0]) == uaft and \
                    isinstance(node.ast.value, ast.Call) and \
                    node.ast.value.args and \
                    isinstance(node.ast.value.args[0], ast.Name):
                accs.add(node.ast.value.args[0].id)
        ctx.require(len(accs) == 1, 'the accumulated demand of %s'
                    % func.qualname, rule='C06.2', func=func)
        acc = sorted(accs)[0]
        stores = [n for n in body if n.kind == 'stmt' and (
            (isinstance(n.ast, ast.Assign) and
             N.txt(n.ast.targets[0]) == acc) or
            (isinstance(n.ast, ast.AugAssign) and
             N.txt(n.ast.target) == acc))]

        def additive(node):
            stmt = node.ast
            if isinstance(stmt, ast.AugAssign):
                return isinstance(stmt.op, ast.Add) and \
                    N.txt(stmt.value).endswith('.demand')
            val = stmt.value
            return isinstance(val, ast.BinOp) and isinstance(
                val.op, ast.Add) and sorted(
                    [N.txt(val.left) == acc, N.txt(val.right) == acc]) == \
                [False, True] and (N.txt(val.left).endswith('.demand') or
                                   N.txt(val.right).endswith('.demand'))
        ok = len(stores) == 1 and additive(stores[0])
        skip = None
        if ok:
            skip = K.find_path(head, [head], cut_node=lambda n: n in stores,
                               cut_edge=lambda e, h=head: e.src is h and
                               e.kind == 'done', follow_exc=False)
        ctx.ob('C06.2', func, stores[0] if stores else head,
               ok and skip is None,
               'the accumulated demand grows by the demand of the current '
               'instance once per iteration and is never taken back (%s)'
               % '; '.join(N.txt(n.ast) for n in stores),
               construct='cumulative demand in %s' % func.name)
        # the value is carried in the "before" local itself or in a local of
        # its own that "before" is read from at the top of the next iteration
        stores = {}
        for n in body:
            if n.kind == 'stmt' and isinstance(n.ast, ast.Assign) and \
                    len(n.ast.targets) == 1 and \
                    isinstance(n.ast.targets[0], ast.Name) and \
                    N.txt(n.ast.value) == uaft:
                stores.setdefault(n.ast.targets[0].id, []).append(n)
        good = None
        skip2 = []
        for carrier, nodes in sorted(stores.items()):
            path = K.find_path(head, [head], cut_node=lambda n, ns=nodes:
                               n in ns,
                               cut_edge=lambda e, h=head: e.src is h and
                               e.kind == 'done', follow_exc=False)
            reads = [n for n in body if n.kind == 'stmt' and
                     isinstance(n.ast, ast.Assign) and
                     N.txt(n.ast.targets[0]) == ubef and
                     N.txt(n.ast.value) not in (uaft, carrier) and
                     'MAX_UTILIZATION' not in N.txt(n.ast.value)]
            if path is None and (carrier == ubef or not reads):
                good = nodes[0]
                skip2 = None
                break
            skip2 = path or skip2
        ctx.ob('C06.2', func, good if good is not None else head,
               good is not None,
               'the utilisation before the next instance is the utilisation '
               'after this one on every path of an iteration',
               path=K.describe(skip2) if skip2 else None,
               construct='utilisation carried over in %s' % func.name)


def _every_load_queues(ctx):
    """C06.5: an instance that is loaded again (an allocations event moved
    its pattern to another allocation) is queued again under the allocation
    the assignment table gives now - Loader.load_app hands every instance,
    new or known, to Cell.add_app with that allocation."""
    loader = ctx.index.get_class(K.LOADER, 'Loader')
    func = loader.methods.get('load_app') if loader else None
    ctx.require(func is not None, 'Loader.load_app', rule='C06.5')
    graph = ctx.cfg(func)
    finds = [n for n in graph.nodes if n.kind == 'stmt' and
             isinstance(n.ast, ast.Assign) and
             isinstance(n.ast.value, ast.Call) and
             K.is_meth(n.ast.value, 'find_assignment')]
    ctx.require(len(finds) == 1, 'find_assignment in load_app',
                rule='C06.5', func=func)
    tgt = finds[0].ast.targets[0]
    alloc_var = N.txt(tgt.elts[1]) if isinstance(tgt, ast.Tuple) and \
        len(tgt.elts) == 2 else None
    adds = [n for n, c in K.nodes_calling(
        graph, lambda c: K.is_meth(c, 'add_app') and len(c.args) == 2 and
        N.txt(c.args[0]) == alloc_var)]
    skip = K.find_path(finds[0], [graph.exit],
                       cut_node=lambda n: n in adds, follow_exc=False)
    ctx.ob('C06.5', func, adds[0] if adds else finds[0],
           bool(adds) and skip is None,
           'every instance loaded, new or already known, is queued under '
           'the allocation find_assignment returned',
           path=K.describe(skip) if skip else None,
           construct='load_app always queues')


def _assignment_key(ctx):
    """C06.7: the assignment table is filed and searched under the same key:
    load_allocations and find_assignment derive the key of a pattern and of
    an instance name by the same function (a name filed under proid and
    looked up under user@proid falls through to the default allocation)."""
    loader = ctx.index.get_class(K.LOADER, 'Loader')
    filer = loader.methods.get('load_allocations')
    finder = loader.methods.get('find_assignment')
    ctx.require(filer is not None and finder is not None,
                'load_allocations / find_assignment', rule='C06.7')

    _depth = [0]

    def key_forms(func):
        """Shapes of the keys under which func indexes self.assignments:
        the callee name for f(x), else the expression with its single free
        name replaced by a placeholder."""
        forms = set()
        # on the source of the routine (the view would splice the key helper
        # in and hide that both sides call the same one)
        # ... and of the private methods of the class it hands the work to
        for call in K.calls(func.raw):
            if isinstance(call.func, ast.Attribute) and \
                    N.txt(call.func.value) == 'self' and \
                    call.func.attr.startswith('_') and \
                    func.cls is not None and _depth[0] < 2:
                inner = ctx.index.find_method(func.cls, call.func.attr)
                if inner is not None and inner is not func:
                    _depth[0] += 1
                    forms |= key_forms(inner)
                    _depth[0] -= 1
        defs = {}
        for sub in K.walk_no_nested(func.raw):
            if isinstance(sub, ast.Assign) and len(sub.targets) == 1 and \
                    isinstance(sub.targets[0], ast.Name):
                defs.setdefault(sub.targets[0].id, []).append(sub.value)
        for sub in K.walk_no_nested(func.raw):
            expr = None
            if isinstance(sub, ast.Subscript) and \
                    N.txt(sub.value) == 'self.assignments':
                expr = sub.slice
            elif isinstance(sub, ast.Call) and K.is_meth(
                    sub, 'get', 'setdefault', 'pop') and \
                    K.recv_text(sub) == 'self.assignments' and sub.args:
                expr = sub.args[0]
            elif isinstance(sub, ast.Compare) and len(sub.ops) == 1 and \
                    isinstance(sub.ops[0], (ast.In, ast.NotIn)) and \
                    N.txt(sub.comparators[0]) == 'self.assignments':
                expr = sub.left
            if expr is not None:
                if isinstance(expr, ast.Name) and \
                        len(defs.get(expr.id, [])) == 1:
                    expr = defs[expr.id][0]
                if isinstance(expr, ast.Call) and isinstance(
                        expr.func, ast.Name) and len(expr.args) == 1:
                    forms.add('%s(.)' % expr.func.id)
                else:
                    names = sorted(n for n in N.mentions(expr)
                                   if n.isidentifier())
                    text = N.txt(expr)
                    if len(names) == 1:
                        text = text.replace(names[0], '.')
                    forms.add(text)
        return forms
    wforms, rforms = key_forms(filer), key_forms(finder)
    ctx.ob('C06.7', finder, None,
           bool(wforms) and wforms == rforms,
           'assignments are filed and looked up under the same key (filed '
           'under %s, looked up under %s)' % (sorted(wforms), sorted(rforms)),
           construct='assignment key agreement')


def _own_reservation(ctx, priv, merged):
    """C06.2: an allocation's own queue is scored against its own
    reservation: every utilisation the private generator computes takes
    ``self.reserved`` (the merged queue of the tree is what the total
    reservation is for).  Scored against the total, an allocation with
    reserving children boosts - and lets past the cap - instances its own
    reservation does not cover."""
    calls = [c for c in K.calls(priv.node)
             if K.callee_text(c).split('.')[-1] == 'utilization' and
             len(c.args) >= 2]
    ctx.require(calls, 'utilization(...) in the private queue generator',
                rule='C06.2', func=priv)
    for call in calls:
        got = K.rtxt(priv, call.args[1])
        ctx.ob('C06.2', priv, call, got == 'self.reserved',
               'the own queue is scored against the own reservation '
               '(self.reserved; found %s)' % got,
               construct='own reservation: %s' % N.txt(call)[:40])


def _assignment_pattern(ctx):
    """C06.7: an assignment speaks for the instances of the application it
    names, nothing else: the pattern compiled for it is the recorded pattern
    followed by the instance separator and ten digits (``name#0000000001``).
    A looser suffix (``*``) also matches every application whose name merely
    starts with the recorded one and hands it the priority and allocation of
    its neighbour."""
    import re as _re
    loader = ctx.index.get_class(K.LOADER, 'Loader')
    filer = loader.methods.get('load_allocations')
    ctx.require(filer is not None, 'Loader.load_allocations', rule='C06.7')
    sites = [c for c in K.calls(filer.node)
             if K.callee_text(c).endswith('fnmatch.translate') and c.args]
    ctx.require(sites, 'fnmatch.translate(<assignment pattern>) in '
                'load_allocations', rule='C06.7', func=filer)
    for call in sites:
        expr = K.rexpr(filer, call.args[0])
        parts = []
        cur = expr
        while isinstance(cur, ast.BinOp) and isinstance(cur.op, ast.Add):
            parts.insert(0, cur.right)
            cur = cur.left
        parts.insert(0, cur)
        head, tail = parts[0], parts[1:]
        suffix = None
        try:
            suffix = ''.join(K.fold_literal_table(p) for p in tail)
        except Exception:       # pylint: disable=broad-except
            suffix = None
        recorded = isinstance(head, ast.Subscript) and isinstance(
            head.slice, ast.Constant) and head.slice.value == 'pattern'
        ok = recorded and isinstance(suffix, str) and _re.fullmatch(
            r'(\[#\]|#)(\[0-9\]){10}', suffix) is not None
        ctx.ob('C06.7', filer, call, ok,
               "the compiled pattern is <recorded pattern> + '#' + ten "
               'digits (found suffix %r)' % (suffix,),
               construct='assignment pattern suffix')


def _every_event(ctx):
    """C06.7: every event of a batch reaches the handler of its resource - a
    priority update is an event of its own, and two of them may be pending
    together; the only reason to pass one over is a resource without a
    handler."""
    master = ctx.index.get_class(K.MASTER, 'Master')
    func = master.methods.get('process_events') if master else None
    ctx.require(func is not None, 'Master.process_events', rule='C06.7')
    graph = ctx.cfg(func)
    nz = N.Normaliser()
    facts = N.must_facts(graph, nz)
    sites = [(n, c) for n, c in K.nodes_calling(
        graph, lambda c: isinstance(c.func, ast.Subscript) and
        'event_handlers' in N.txt(c.func.value))]
    ctx.require(sites, 'dispatch to the resource handler in process_events',
                rule='C06.7', func=func)
    for node, call in sites:
        loop = K.enclosing_for(graph, node)
        names = N.for_targets(loop) if loop is not None else set()
        mine = [f for f in N.raw_only(facts[node]) if f.mentions & names]
        ok = all(f.key[0] == 'in' and f.key[3] and
                 'event_handlers' in f.key[2] for f in mine)
        ctx.ob('C06.7', func, node, ok and loop is not None,
               'an event is dispatched whenever its resource has a handler '
               '(conditions: %s)' % sorted(N.show(f) for f in mine),
               construct='every event dispatched')
        if loop is not None:
            K.exhaustive_loop(ctx, 'C06.7', func, loop,
                              'dispatch of the events of a batch')


def _constructor_cap(ctx, alloc):
    """C06.2: the utilisation cap handed to the constructor is the cap of the
    object.  The constructor calls the setter and then other methods of the
    class; one that ends in the setter with a parameter of its own (update,
    whose cap parameter defaults to None = no cap) silently replaces what
    the constructor was given unless the value is passed on."""
    init = alloc.methods.get('__init__')
    setter = alloc.methods.get('set_max_utilization')
    if init is None or setter is None:
        return
    params = init.params()

    def cap_arg(call):
        """The expression a call on self makes the cap, or None when the
        call does not touch the cap."""
        if not (isinstance(call.func, ast.Attribute) and
                N.txt(call.func.value) == 'self'):
            return None
        name = call.func.attr
        if name == setter.name:
            return N.txt(call.args[0]) if call.args else 'None'
        meth = alloc.methods.get(name)
        if meth is None or meth is init:
            return None
        for inner in K.calls(meth.node):
            if isinstance(inner.func, ast.Attribute) and \
                    N.txt(inner.func.value) == 'self' and \
                    inner.func.attr == setter.name and inner.args and \
                    isinstance(inner.args[0], ast.Name) and \
                    inner.args[0].id in meth.params():
                q = inner.args[0].id
                idx = meth.params().index(q) - 1        # without self
                for kw in call.keywords:
                    if kw.arg == q:
                        return N.txt(kw.value)
                if idx < len(call.args):
                    return N.txt(call.args[idx])
                defaults = meth.node.args.defaults
                names = [a.arg for a in meth.node.args.args]
                pos = names.index(q) - (len(names) - len(defaults))
                return 'default:%s' % (N.txt(defaults[pos])
                                       if pos >= 0 else '?')
        return None
    given = None
    source = None
    last = None
    stmts = sorted((sub for sub in K.walk_no_nested(init.node)
                    if isinstance(sub, ast.Call)),
                   key=lambda c: (c.lineno, c.col_offset))
    for call in stmts:
        got = cap_arg(call)
        if got is None:
            continue
        if got in params and given is None:
            given = got
        source, last = got, call
    if given is None:
        return          # the constructor takes no cap: nothing to decide
    ctx.ob('C06.2', init, last, source == given,
           'the cap given to the constructor (%s) is what the last call of '
           'the constructor that sets the cap stores' % given
           if source == given else
           'the cap given to the constructor (%s) is replaced by %s: %s is '
           'the last call of the constructor that sets the cap' % (
               given, source, N.txt(last)[:60]),
           construct='constructor cap kept')


def _given_value_kept(ctx, alloc):
    """C06.2: a configured value is taken whenever one is given - the
    setters fall back to the default under `is None` only, so that a legal
    zero (utilisation cap 0: schedule nothing from this allocation) is not
    read as "not configured"."""
    for sname, attr in (('set_max_utilization', 'max_utilization'),):
        func = alloc.methods.get(sname)
        ctx.require(func is not None, 'Allocation.%s' % sname, rule='C06.2')
        graph = ctx.cfg(func)
        nz = N.Normaliser()
        facts = N.must_facts(graph, nz)
        param = func.params()[1]
        stores = [(n, v) for n in graph.nodes
                  for t, v, _k in K.assigns_attr(n)
                  if N.txt(t) == 'self.%s' % attr]
        ctx.require(stores, 'store of %s in %s' % (attr, sname),
                    rule='C06.2', func=func)
        for node, val in stores:
            cases = [(val, set())]
            if isinstance(val, ast.IfExp):
                tatom = nz.atom(val.test)
                cases = [(val.body, {tatom.key}),
                         (val.orelse, {N.negate(tatom).key})]
            for expr, extra in cases:
                have = set(f.key for f in facts[node]) | extra
                given = ('is', param, 'None', False) in have
                absent = ('is', param, 'None', True) in have
                if N.txt(expr) == param:
                    ok = True           # the value itself, whatever it is
                else:
                    ok = absent         # anything else only when none given
                ctx.ob('C06.2', func, node, ok,
                       '%s stores the given value; the default only when '
                       'the value is None (stored: %s, known: %s)' % (
                           sname, N.txt(expr),
                           'given' if given else
                           'None' if absent else 'nothing'),
                       construct='%s keeps a given value' % sname)


def _reload_order(ctx):
    """C06.5/C06.7: an allocations event re-reads the assignment table
    before the instances are matched against it again - the other order
    queues every instance by the previous table until the next event."""
    master = ctx.index.get_class(K.MASTER, 'Master')
    func = master.methods.get('_handle_allocations_event') if master \
        else None
    ctx.require(func is not None, 'Master._handle_allocations_event')
    graph = ctx.cfg(func)
    tables = [n for n, c in K.nodes_calling(
        graph, lambda c: K.is_meth(c, 'load_allocations'))]
    apps = [n for n, c in K.nodes_calling(
        graph, lambda c: K.is_meth(c, 'load_apps', 'load_app'))]
    ctx.require(tables, 'load_allocations in the allocations event handler',
                rule='C06.7', func=func)
    ctx.require(apps, 'load_apps in the allocations event handler',
                rule='C06.7', func=func)
    for node in apps:
        ctx.ob('C06.7', func, node,
               K.guarded_by(graph, node, lambda e: e.src in tables and
                            e.kind != 'exc'),
               'the instances are re-assigned after the assignment table '
               'was read again', construct='allocations before apps')
    skip = K.find_path(tables[0], [graph.exit],
                       cut_node=lambda n: n in apps, follow_exc=False)
    ctx.ob('C06.7', func, tables[0], skip is None,
           'every change of the allocations re-assigns the instances',
           path=K.describe(skip) if skip else None,
           construct='apps re-assigned after allocations')


def _unplaced(ctx):
    loop = PlacementLoop(ctx)
    nz = loop.nz
    tests = [n for n in loop.body() if n.kind == 'test' and
             '.final_rank' in N.txt(n.ast)]
    ctx.require(tests, 'test of final_rank in the placement loop',
        rule='C06.6')
    for test in tests:
        atom = nz.atom(test.ast)
        ok = atom.key[0] == 'cmp' and atom.key[1] == '==' and sorted(
            t for t, _c in atom.key[2]) == sorted(
                ['_UNPLACED_RANK', '%s.final_rank' % loop.var])
        ctx.ob('C06.6', loop.func, test, ok,
               'the consumer compares final_rank with the producer symbol '
               '_UNPLACED_RANK')
        for edge in test.succ:
            if edge.kind != 'true':
                continue
            region = K.cut_reach(loop.graph, edge.dst,
                                 cut_node=lambda n: n is loop.head,
                                 follow_exc=False)
            region = set(n for n in region if n in loop.body())
            places = [n for n in region for c in C.node_calls(n)
                      if loop.places(c)]
            dominated = [n for n in region if K.guarded_by(
                loop.graph, n, lambda e, ed=edge: e is ed,
                start=loop.head)]
            ends = [e for e in K.loop_back_edges(loop.head)
                    if e.src in dominated]
            kept = []
            for end in ends:
                for state in loop.states_before(end.src):
                    for new in loop.step(end, state):
                        if new[0] != 'N':
                            kept.append(new)
            ok = bool(ends) and not kept and not [
                p for p in places if p in dominated]
            ctx.ob('C06.6', loop.func, test, ok,
                   'an instance beyond the utilisation cap is neither '
                   'placed nor kept (states at the end of that branch: %s)'
                   % (kept or 'all not-placed'),
                   construct='unplaced-rank branch')


def _manifest_priority(ctx):
    loader = ctx.index.get_class(K.LOADER, 'Loader')
    func = loader.methods.get('load_app')
    ctx.require(func is not None, 'Loader.load_app')
    hits = 0
    for sub in K.walk_no_nested(func.node):
        exprs = []
        if isinstance(sub, ast.Assign):
            exprs = [sub.value]
        elif isinstance(sub, ast.If):
            exprs = [sub.test]
        for expr in exprs:
            if "'priority'" not in N.txt(expr) or \
                    'manifest' not in N.txt(expr):
                continue
            hits += 1
            bad = [s for s in ast.walk(expr) if isinstance(
                s, ast.BoolOp) and isinstance(s.op, ast.Or) and any(
                    "'priority'" in N.txt(v) for v in s.values)]
            bad += [s for s in ast.walk(expr) if isinstance(s, ast.IfExp)
                    and "'priority'" in N.txt(s.test)
                    and not isinstance(s.test, ast.Compare)]
            ctx.ob('C06.7', func, sub, not bad,
                   'manifest priority is read without a truthiness default '
                   '(priority 0 is a value, not "unset")' if not bad else
                   'manifest priority passes through a truthiness default: '
                   'an explicit priority 0 is treated as unset',
                   construct=N.txt(expr)[:100])
    ctx.require(hits >= 1, "reads of manifest['priority'] in load_app",
        rule='C06.7')


def _assignments_rebuilt(ctx):
    """C06.7: the pattern -> (priority, allocation) table is rebuilt on every
    load of the allocations - entries of an earlier load must not stay in
    front of the new ones (find_assignment takes the first match)."""
    loader = ctx.index.get_class(K.LOADER, 'Loader')
    func = loader.methods.get('load_allocations')
    ctx.require(func is not None, 'Loader.load_allocations')
    graph = ctx.cfg(func)
    fills = [n for n in graph.nodes if any(
        K.is_meth(c, 'append', 'extend', 'insert', 'setdefault') and
        'self.assignments' in (K.recv_text(c) or '')
        for c in C.node_calls(n)) or (
            n.kind == 'stmt' and isinstance(n.ast, ast.Assign) and any(
                isinstance(t, ast.Subscript) and
                N.txt(t.value) == 'self.assignments'
                for t in n.ast.targets))]
    ctx.require(fills, 'assignment table filled in load_allocations',
        rule='C06.7')
    fresh = [n for n in graph.nodes if n.kind == 'stmt' and
             isinstance(n.ast, ast.Assign) and any(
                 N.txt(t) == 'self.assignments' for t in n.ast.targets) and
             isinstance(n.ast.value, (ast.Call, ast.Dict)) and not any(
                 'self.assignments' in N.txt(a)
                 for a in getattr(n.ast.value, 'args', []))]
    for node in fills:
        ok = bool(fresh) and K.guarded_by(
            graph, node, lambda e: e.src in fresh)
        ctx.ob('C06.7', func, node, ok,
               'assignments are added to a table created by this load '
               '(entries of an earlier load do not survive in front of '
               'them)', construct='assignment table rebuilt')
    # ... and a load that finds nothing to file leaves an empty table, not
    # the previous one: when the last allocation is deleted its patterns
    # must stop matching (the instances fall back to the default
    # assignment)
    stale = K.find_path(graph.entry, [graph.exit],
                        cut_node=lambda n: n in fresh, follow_exc=False)
    ctx.ob('C06.7', func, None, stale is None,
           'every load of the allocations ends with an assignment table of '
           'its own' if stale is None else
           'a load of the allocations can end with the assignment table of '
           'the previous load still in force',
           path=K.describe(stale) if stale else None,
           construct='assignment table of the previous load dropped')


def check(ctx):
    _assignments_rebuilt(ctx)
    alloc, priv, merged = _generators(ctx)
    _sort_key(ctx, priv)
    _rank(ctx, priv)
    _parameters_applied(ctx, alloc)
    _given_value_kept(ctx, alloc)
    _constructor_cap(ctx, alloc)
    _reload_order(ctx)
    _cumulative(ctx, priv, merged)
    _own_reservation(ctx, priv, merged)
    _every_load_queues(ctx)
    _assignment_key(ctx)
    _assignment_pattern(ctx)
    _every_event(ctx)
    _sentinel(ctx, priv, merged)
    _layout(ctx, priv, merged)
    _exactly_once(ctx, priv, merged)
    _single_membership(ctx)
    # an instance is considered once per cycle - which takes the cycle to
    # run the placement loop over the queue at all: it is that loop which
    # takes a running instance beyond the utilisation cap off its server
    from .sched_model import loop_always_run
    loop_always_run(ctx, 'C06.5')
    _unplaced(ctx)
    _manifest_priority(ctx)


_S = 'lib/python/treadmill/scheduler/__init__.py'
_L = 'lib/python/treadmill/scheduler/loader.py'

MUTANTS = [
    ('assignments-not-reset', [(_L, """        self.assignments = collections.defaultdict(list)
        if not data:
""", """        if not data:
""")], 'C06.7'),
    ('revert-F27-assignments-kept-when-no-allocation-left', [(_L, """        self.assignments = collections.defaultdict(list)
        if not data:
            return

""", """        if not data:
            return

        self.assignments = collections.defaultdict(list)
""")], 'C06.7'),
    ('revert-F28-constructor-cap-dropped', [(_S, """        self.update(reserved, rank, 0, max_utilization)
""", """        self.update(reserved, rank, 0)
""")], 'C06.2'),
    ('key-priority-ascending', [(_S, """            return (-app.priority, 0 if app.server else 1,
""", """            return (app.priority, 0 if app.server else 1,
""")], 'C06.1'),
    ('key-pending-first', [(_S, """            return (-app.priority, 0 if app.server else 1,
""", """            return (-app.priority, 1 if app.server else 0,
""")], 'C06.1'),
    ('key-no-tiebreak', [(_S, """            return (-app.priority, 0 if app.server else 1,
                    app.global_order, app.name)
""", """            return (-app.priority, 0 if app.server else 1)
""")], 'C06.1'),
    ('sort-reversed', [(_S, """        prio_queue = sorted(six.viewvalues(self.apps), key=_app_key)
""", """        prio_queue = sorted(six.viewvalues(self.apps), key=_app_key,
                            reverse=True)
""")], 'C06.1'),
    ('queue-skips-unplaced-zero-prio', [(_S, """        prio_queue = sorted(six.viewvalues(self.apps), key=_app_key)
""", """        prio_queue = sorted([app for app in six.viewvalues(self.apps)
                             if app.priority or app.server], key=_app_key)
""")], 'C06.5'),
    ('cap-off-by-one', [(_S, """            if util_after <= self.max_utilization - 1:
""", """            if util_after <= self.max_utilization:
""")], 'C06.2'),
    ('cap-strict', [(_S, """            if util_after <= self.max_utilization - 1:
""", """            if util_after < self.max_utilization - 1:
""")], 'C06.2'),
    ('boost-on-after', [(_S, """                if util_before < 0:
                    rank -= self.rank_adjustment
""", """                if util_after < 0:
                    rank -= self.rank_adjustment
""")], 'C06.2'),
    ('boost-adds', [(_S, """                    rank -= self.rank_adjustment
""", """                    rank += self.rank_adjustment
""")], 'C06.2'),
    ('sentinel-only-before-in-merge', [(_S, """            if app.priority == 0:
                util_before = _MAX_UTILIZATION
                util_after = _MAX_UTILIZATION

            # - lower rank allocations take precedence.""", """            if app.priority == 0:
                util_after = _MAX_UTILIZATION

            # - lower rank allocations take precedence.""")], 'C06.3'),
    ('sentinel-priority-one', [(_S, """            if app.priority == 0:
                util_before = _MAX_UTILIZATION
                util_after = _MAX_UTILIZATION

            # All things equal""", """            if app.priority <= 1:
                util_before = _MAX_UTILIZATION
                util_after = _MAX_UTILIZATION

            # All things equal""")], 'C06.3'),
    ('layout-swapped-in-merge', [(_S, """            entry = (rank, util_before, util_after, pending, order, app)
            if visitor:""", """            entry = (rank, util_after, util_before, pending, order, app)
            if visitor:""")], 'C06.4'),
    ('consumer-reads-after', [(_S, """            util = item[1]
""", """            util = item[2]
""")], 'C06.4'),
    ('merge-skips-pending-beyond', [(_S, """            entry = (rank, util_before, util_after, pending, order, app)
            if visitor:
                visitor(self, entry, acc_demand)
""", """            entry = (rank, util_before, util_after, pending, order, app)
            if rank == _UNPLACED_RANK and pending:
                continue
            if visitor:
                visitor(self, entry, acc_demand)
""")], 'C06.5'),
    ('merge-forgets-private-queue', [(_S, """        queues.append(self.priv_utilization_queue())

""", """
""")], 'C06.5'),
    ('schedule-alloc-filters', [(_S, """        queue = [item[-1] for item in util_queue]
""", """        queue = [item[-1] for item in util_queue if item[0] < sys.maxsize]
""")], 'C06.5'),
    ('unplaced-keeps-running', [(_S, """            if app.final_rank == _UNPLACED_RANK:
                if app.server:
                    assert app.server in servers
                    assert app.has_identity()
                    servers[app.server].remove(app.name)

                app.release_identity()
                continue
""", """            if app.final_rank == _UNPLACED_RANK:
                if not app.server:
                    app.release_identity()
                continue
""")], 'C06.6'),
    ('unplaced-other-symbol', [(_S, """            if app.final_rank == _UNPLACED_RANK:
""", """            if app.final_rank == DEFAULT_RANK * MAX_PRIORITY:
""")], 'C06.6'),
    ('manifest-priority-falsy-default', [(_L, """        if 'priority' in manifest and int(manifest['priority']) != -1:
            priority = int(manifest['priority'])
""", """        manifest_priority = int(manifest.get('priority') or -1)
        if manifest_priority != -1:
            priority = manifest_priority
""")], 'C06.7'),
]

REFACTORS = [
    ('key-lambda', [(_S, """        prio_queue = sorted(six.viewvalues(self.apps), key=_app_key)
""", """        prio_queue = sorted(
            six.viewvalues(self.apps),
            key=lambda a: (-a.priority, 0 if a.server else 1,
                           a.global_order, a.name))
""")]),
    ('key-not-server', [(_S, """            return (-app.priority, 0 if app.server else 1,
""", """            return (-app.priority, not app.server,
""")]),
    ('cap-rearranged', [(_S, """            if util_after <= self.max_utilization - 1:
""", """            if util_after + 1 <= self.max_utilization:
""")]),
    ('rank-branches-swapped', [(_S, """            if util_after <= self.max_utilization - 1:
                rank = self.rank
                if util_before < 0:
                    rank -= self.rank_adjustment
            else:
                rank = _UNPLACED_RANK
""", """            if util_after > self.max_utilization - 1:
                rank = _UNPLACED_RANK
            else:
                rank = self.rank
                if util_before < 0:
                    rank -= self.rank_adjustment
""")]),
    ('manifest-priority-local', [(_L, """        if 'priority' in manifest and int(manifest['priority']) != -1:
            priority = int(manifest['priority'])
""", """        if 'priority' in manifest:
            manifest_priority = int(manifest['priority'])
            if manifest_priority != -1:
                priority = manifest_priority
""")]),
]
