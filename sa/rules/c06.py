"""C06 - the scheduling queue: rank, reservation, priority (structural half)."""

import ast

from .. import cfg as C
from .. import norm as N
from ..index import dotted_text
from . import common as K
from .sched_model import PlacementLoop

EXPLANATION = """
C06.1 the per-allocation sort key normalises to [priority descending,
placed before pending, arrival ascending(, name)] and the sort is ascending.
C06.2 rank decision: unplaced rank iff not util_after <= max_utilization - 1;
boosted rank (rank -= rank_adjustment) iff util_before < 0; otherwise the
allocation's rank.  C06.3 both queue generators override util_before and
util_after with the maximum under priority == 0 (siblings agree).  C06.4
both generators yield the same 6-field layout and every consumer reads
positions that exist and mean rank / utilisation / instance.  C06.5 every
iteration of each generator reaches exactly one yield (no filtering), the
private queue ranges over all of self.apps, the merged queue over every
sub-allocation plus the private queue, and schedule_alloc maps the queue
without a filter.  C06.6 the unplaced-rank symbol written by the producer is
the one compared by the placement loop, whose branch neither places nor
keeps the instance.  C06.7 an explicit manifest priority (0 included) is
honoured: no truthiness default on the numeric field.
Does NOT decide rank monotonicity and per-allocation order through the
recursive re-scored merge (numeric, depends on the whole tree) - the larger
half of the property.
"""

ASSUMPTIONS = [
    'heapq.merge yields every element of every input exactly once',
    'sorted() is an ascending stable sort',
]

MIN_OBLIGATIONS = 20
MIN_PER_RULE = {'C06.1': 3, 'C06.2': 3, 'C06.3': 4, 'C06.4': 4, 'C06.5': 5,
                'C06.6': 2, 'C06.7': 1}


def _generators(ctx):
    alloc = ctx.index.get_class(K.SCHED, 'Allocation')
    gens = [f for f in alloc.live_methods() if any(
        isinstance(s, ast.Yield) for s in K.walk_no_nested(f.node))]
    ctx.require(len(gens) == 2, 'two queue generators in Allocation '
                                '(found %d)' % len(gens))
    priv = K.one([g for g in gens if 'sorted(' in ast.unparse(g.node) and
                  'self.apps' in ast.unparse(g.node)],
                 'generator sorting the allocation own instances')
    merged = K.one([g for g in gens if g is not priv], 'merging generator')
    return alloc, priv, merged


def _sort_key(ctx, priv):
    call = None
    for sub in K.walk_no_nested(priv.node):
        if isinstance(sub, ast.Call) and dotted_text(sub.func) == 'sorted':
            call = sub
    ctx.require(call is not None, 'sorted() in %s' % priv.qualname)
    rev = K.kwarg(call, 'reverse')
    ctx.ob('C06.1', priv, call,
           rev is None or (isinstance(rev, ast.Constant) and not rev.value),
           'ascending sort')
    keyf = K.kwarg(call, 'key')
    keyfunc = None
    if isinstance(keyf, ast.Name) and keyf.id in priv.nested():
        keyfunc = priv.nested()[keyf.id]
        param = keyfunc.params()[0]
        rets = [s for s in K.walk_no_nested(keyfunc.node)
                if isinstance(s, ast.Return)]
        tup = rets[0].value if rets else None
    elif isinstance(keyf, ast.Lambda):
        param = keyf.args.args[0].arg
        tup = keyf.body
    else:
        tup = None
        param = None
    ctx.require(isinstance(tup, ast.Tuple), 'tuple sort key')
    elts = tup.elts
    e0 = len(elts) > 0 and isinstance(elts[0], ast.UnaryOp) and \
        isinstance(elts[0].op, ast.USub) and \
        N.txt(elts[0].operand) == '%s.priority' % param
    ctx.ob('C06.1', keyfunc or priv, tup, e0,
           'first key: priority descending (-%s.priority)' % param,
           construct='key[0]')
    e1 = False
    if len(elts) > 1:
        el = elts[1]
        if isinstance(el, ast.IfExp) and \
                N.txt(el.test) == '%s.server' % param and \
                isinstance(el.body, ast.Constant) and \
                isinstance(el.orelse, ast.Constant) and \
                el.body.value < el.orelse.value:
            e1 = True
        elif N.txt(el) in ('not %s.server' % param,
                           '%s.server is None' % param):
            e1 = True
    ctx.ob('C06.1', keyfunc or priv, tup, e1,
           'second key: placed before pending', construct='key[1]')
    e2 = len(elts) > 2 and N.txt(elts[2]) == '%s.global_order' % param
    ctx.ob('C06.1', keyfunc or priv, tup, e2,
           'third key: arrival order ascending (%s.global_order)' % param,
           construct='key[2]')
    # the sorted domain is all instances of the allocation
    dom = N.txt(call.args[0]) if call.args else ''
    ctx.ob('C06.5', priv, call, 'self.apps' in dom and ' if ' not in dom,
           'the private queue ranges over all of self.apps: %s' % dom,
           construct='sorted domain')


def _rank(ctx, priv):
    nz = N.Normaliser()
    graph = ctx.cfg(priv)
    facts = N.must_facts(graph, nz)
    cap = N.cmp_atom(ast.Name(id='util_after'), '<=',
                     ast.parse('self.max_utilization - 1',
                               mode='eval').body)
    boost = N.cmp_atom(ast.Name(id='util_before'), '<',
                       ast.Constant(value=0))
    seen = {'unplaced': 0, 'base': 0, 'boost': 0}
    for node in graph.nodes:
        if node.kind != 'stmt':
            continue
        stmt = node.ast
        if isinstance(stmt, ast.Assign) and N.txt(stmt.targets[0]) == 'rank':
            if N.txt(stmt.value) == '_UNPLACED_RANK':
                seen['unplaced'] += 1
                ctx.ob('C06.2', priv, node, N.negate(cap) in facts[node],
                       'unplaced rank exactly when not (%s)' % N.show(cap))
            elif N.txt(stmt.value) == 'self.rank':
                seen['base'] += 1
                ctx.ob('C06.2', priv, node, cap in facts[node],
                       'allocation rank when %s' % N.show(cap))
            else:
                ctx.fail('C06.2', priv, node, 'rank assigned from an '
                                              'unexpected source')
        if isinstance(stmt, ast.AugAssign) and N.txt(stmt.target) == 'rank':
            seen['boost'] += 1
            ok = isinstance(stmt.op, ast.Sub) and \
                N.txt(stmt.value) == 'self.rank_adjustment' and \
                boost in facts[node] and cap in facts[node]
            ctx.ob('C06.2', priv, node, ok,
                   'boost subtracts rank_adjustment exactly when %s (within '
                   'the cap)' % N.show(boost))
    ctx.require(all(seen.values()), 'rank assignments in %s: %s' % (
        priv.qualname, seen))


def _sentinel(ctx, priv, merged):
    nz = N.Normaliser()
    for func in (priv, merged):
        graph = ctx.cfg(func)
        facts = N.must_facts(graph, nz)
        found = set()
        for node in graph.nodes:
            if node.kind == 'stmt' and isinstance(node.ast, ast.Assign) and \
                    N.txt(node.ast.value) == '_MAX_UTILIZATION':
                tgt = N.txt(node.ast.targets[0])
                ok = any(f.key[0] == 'cmp' and f.key[1] == '==' and
                         any(t.endswith('.priority') for t, _c in f.key[2])
                         and len(f.key[2]) == 1 for f in facts[node])
                found.add(tgt)
                ctx.ob('C06.3', func, node, ok,
                       '%s forced to the maximum exactly under priority == 0'
                       % tgt)
        ctx.ob('C06.3', func, None, found == {'util_before', 'util_after'},
               'priority-0 sentinel covers util_before and util_after '
               '(found %s)' % sorted(found),
               construct='sentinel fields in %s' % func.name)


def _layout(ctx, priv, merged):
    layouts = {}
    for func in (priv, merged):
        for sub in K.walk_no_nested(func.node):
            if isinstance(sub, ast.Assign) and \
                    N.txt(sub.targets[0]) == 'entry' and \
                    isinstance(sub.value, ast.Tuple):
                layouts[func.name] = [N.txt(e) for e in sub.value.elts]
        yields = [s for s in K.walk_no_nested(func.node)
                  if isinstance(s, ast.Yield)]
        ctx.ob('C06.4', func, yields[0] if yields else None,
               bool(yields) and all(N.txt(y.value) == 'entry'
                                    for y in yields),
               'the generator yields the entry tuple',
               construct='yield entry')
    ctx.require(len(layouts) == 2, 'entry tuples of both generators')
    lp, lm = layouts[priv.name], layouts[merged.name]
    names = ['rank', 'util_before', 'util_after', 'pending']
    ok = len(lp) == len(lm) == 6 and lp[:4] == names and lm[:4] == names \
        and lp[-1] == 'app' and lm[-1] == 'app' and \
        lp[4].endswith('global_order') and lm[4] in ('order',)
    ctx.ob('C06.4', merged, None, ok,
           'both generators yield (rank, util_before, util_after, pending, '
           'order, app): %s / %s' % (lp, lm), construct='entry layout')
    # destructuring in the merge
    for sub in K.walk_no_nested(merged.node):
        if isinstance(sub, ast.Assign) and isinstance(sub.targets[0],
                                                      ast.Tuple) and \
                N.txt(sub.value) == 'item':
            got = [N.txt(e) for e in sub.targets[0].elts]
            ok = len(got) == 6 and got[0] == 'rank' and got[3] == 'pending' \
                and got[4] == 'order' and got[5] == 'app'
            ctx.ob('C06.4', merged, sub, ok,
                   'merge destructures the private layout position by '
                   'position: %s' % got)
    # consumers
    cell = ctx.index.get_class(K.SCHED, 'Cell')
    rec = cell.methods.get('_record_rank_and_util')
    ctx.require(rec is not None, 'Cell._record_rank_and_util')
    reads = {}
    for sub in K.walk_no_nested(rec.node):
        if isinstance(sub, ast.Assign) and isinstance(sub.value,
                                                      ast.Subscript) and \
                N.txt(sub.value.value) == 'item':
            reads[N.txt(sub.targets[0])] = N.txt(sub.value.slice)
    ok = reads.get('rank') == '0' and reads.get('util') == '1' and \
        reads.get('app') in ('-1', '5')
    ctx.ob('C06.4', rec, None, ok,
           'consumer reads rank=item[0], util=item[1], app=item[-1]: %s' %
           reads, construct='positions read by _record_rank_and_util')
    stores = {}
    for sub in K.walk_no_nested(rec.node):
        if isinstance(sub, ast.Assign) and isinstance(sub.targets[0],
                                                      ast.Attribute):
            stores[sub.targets[0].attr] = N.txt(sub.value)
    ctx.ob('C06.4', rec, None, stores.get('final_rank') == 'rank' and
           stores.get('final_util') == 'util',
           'final_rank/final_util are taken from those positions: %s' %
           stores, construct='final_rank/final_util')


def _exactly_once(ctx, priv, merged):
    for func in (priv, merged):
        graph = ctx.cfg(func)
        loops = [n for n in graph.nodes if n.kind == 'for']
        head = K.one(loops, 'queue loop of %s' % func.qualname)

        def yields(node):
            if node.ast is None:
                return False
            for root in C.node_exprs(node):
                for sub in ast.walk(root):
                    if isinstance(sub, ast.Yield):
                        return True
            return False

        def step(edge, state):
            if edge.kind == 'exc':
                return []
            if edge.src is head and edge.kind == 'iter':
                return [0]
            if yields(edge.src):
                return [min(2, state + 1)]
            return [state]
        reached = C.explore(graph, [0], step, start=head)
        counts = set()
        for edge in K.loop_back_edges(head):
            for (node, state) in reached:
                if node is edge.src:
                    counts |= set(step(edge, state))
        ctx.ob('C06.5', func, head, counts == {1},
               'every iteration yields exactly once (yield counts at the '
               'end of an iteration: %s)' % sorted(counts),
               construct='one yield per element in %s' % func.name)
    # merged queue covers every sub-allocation and the private queue
    src = ast.unparse(merged.node)
    comp = None
    for sub in K.walk_no_nested(merged.node):
        if isinstance(sub, ast.Assign) and N.txt(sub.targets[0]) == 'queues' \
                and isinstance(sub.value, ast.ListComp):
            comp = sub.value
    ok = comp is not None and not comp.generators[0].ifs and \
        'self.sub_allocations' in N.txt(comp.generators[0].iter) and \
        'utilization_queue' in N.txt(comp.elt)
    ctx.ob('C06.5', merged, comp, ok,
           'one sub-queue per sub-allocation, unfiltered',
           construct='queues = [sub.utilization_queue(...) for all subs]')
    ctx.ob('C06.5', merged, None,
           'queues.append(self.%s())' % priv.name in src and
           'heapq.merge(*queues)' in src,
           'the private queue is merged with the sub-queues '
           '(heapq.merge(*queues))', construct='merge inputs')
    cell = ctx.index.get_class(K.SCHED, 'Cell')
    sa = cell.methods.get('schedule_alloc')
    ctx.require(sa is not None, 'Cell.schedule_alloc')
    okq = False
    for sub in K.walk_no_nested(sa.node):
        if isinstance(sub, ast.Assign) and N.txt(sub.targets[0]) == 'queue' \
                and isinstance(sub.value, ast.ListComp):
            comp = sub.value
            okq = not comp.generators[0].ifs and \
                N.txt(comp.elt) in ('item[-1]', 'item[5]')
            ctx.ob('C06.5', sa, sub, okq,
                   'schedule_alloc maps the queue to instances without a '
                   'filter')
    ctx.require(okq or True, 'queue comprehension')
    ssrc = ast.unparse(sa.node)
    ctx.ob('C06.5', sa, None,
           'list(allocation.%s(' % merged.name in ssrc and
           '_find_placements(queue' in ssrc,
           'the placement loop receives the whole merged queue in order',
           construct='schedule_alloc data flow')


def _single_membership(ctx):
    """An instance is queued by one allocation: it joins a queue only
    after it left the allocation it was assigned to before."""
    cell = ctx.index.get_class(K.SCHED, 'Cell')
    nz = N.Normaliser()
    count = 0
    for func in cell.live_methods():
        params = func.params()
        graph = None
        for sub in K.walk_no_nested(func.node):
            if not (isinstance(sub, ast.Call) and K.is_meth(sub, 'add') and
                    len(sub.args) == 1 and
                    isinstance(sub.args[0], ast.Name) and
                    'allocation' in (K.recv_text(sub) or '')):
                continue
            var = sub.args[0].id
            if var not in params:
                continue
            graph = graph or ctx.cfg(func)
            site = [n for n, _c in K.nodes_calling(graph,
                                                   lambda c: c is sub)]
            if not site:
                continue
            count += 1
            cur = '%s.allocation' % var

            def left(edge, cur=cur, var=var, func=func):
                if edge.kind == 'exc':
                    return False
                for call in C.node_calls(edge.src):
                    if K.is_meth(call, 'remove') and call.args and \
                            K.rtxt(func, K.recv(call)) == cur and \
                            K.rtxt(func, call.args[0]) == '%s.name' % var:
                        return True
                for atom in nz.facts_of_edge(edge):
                    key = atom.key
                    if key[0] == 'truth' and not key[2] and key[1] == cur:
                        return True
                    if key[0] == 'is' and key[1] == cur and \
                            key[2] == 'None' and key[3]:
                        return True
                return False
            ok = K.guarded_by(graph, site[0], left)
            ctx.ob('C06.5', func, site[0], ok,
                   'the instance joins an allocation queue only after it '
                   'was removed from the allocation it belonged to '
                   '(%s.remove(%s.name)), so no two queues yield it'
                   % (cur, var),
                   construct='single membership before ' +
                   site[0].text(40))
    ctx.require(count >= 1, '<allocation>.add(<instance>) in Cell')


def _unplaced(ctx):
    loop = PlacementLoop(ctx)
    nz = loop.nz
    tests = [n for n in loop.body() if n.kind == 'test' and
             '.final_rank' in N.txt(n.ast)]
    ctx.require(tests, 'test of final_rank in the placement loop')
    for test in tests:
        atom = nz.atom(test.ast)
        ok = atom.key[0] == 'cmp' and atom.key[1] == '==' and sorted(
            t for t, _c in atom.key[2]) == sorted(
                ['_UNPLACED_RANK', '%s.final_rank' % loop.var])
        ctx.ob('C06.6', loop.func, test, ok,
               'the consumer compares final_rank with the producer symbol '
               '_UNPLACED_RANK')
        for edge in test.succ:
            if edge.kind != 'true':
                continue
            region = K.cut_reach(loop.graph, edge.dst,
                                 cut_node=lambda n: n is loop.head,
                                 follow_exc=False)
            region = set(n for n in region if n in loop.body())
            places = [n for n in region for c in C.node_calls(n)
                      if loop.places(c)]
            dominated = [n for n in region if K.guarded_by(
                loop.graph, n, lambda e, ed=edge: e is ed,
                start=loop.head)]
            ends = [e for e in K.loop_back_edges(loop.head)
                    if e.src in dominated]
            kept = []
            for end in ends:
                for state in loop.states_before(end.src):
                    for new in loop.step(end, state):
                        if new[0] != 'N':
                            kept.append(new)
            ok = bool(ends) and not kept and not [
                p for p in places if p in dominated]
            ctx.ob('C06.6', loop.func, test, ok,
                   'an instance beyond the utilisation cap is neither '
                   'placed nor kept (states at the end of that branch: %s)'
                   % (kept or 'all not-placed'),
                   construct='unplaced-rank branch')


def _manifest_priority(ctx):
    loader = ctx.index.get_class(K.LOADER, 'Loader')
    func = loader.methods.get('load_app')
    ctx.require(func is not None, 'Loader.load_app')
    hits = 0
    for sub in K.walk_no_nested(func.node):
        exprs = []
        if isinstance(sub, ast.Assign):
            exprs = [sub.value]
        elif isinstance(sub, ast.If):
            exprs = [sub.test]
        for expr in exprs:
            if "'priority'" not in N.txt(expr) or \
                    'manifest' not in N.txt(expr):
                continue
            hits += 1
            bad = [s for s in ast.walk(expr) if isinstance(
                s, ast.BoolOp) and isinstance(s.op, ast.Or) and any(
                    "'priority'" in N.txt(v) for v in s.values)]
            bad += [s for s in ast.walk(expr) if isinstance(s, ast.IfExp)
                    and "'priority'" in N.txt(s.test)
                    and not isinstance(s.test, ast.Compare)]
            ctx.ob('C06.7', func, sub, not bad,
                   'manifest priority is read without a truthiness default '
                   '(priority 0 is a value, not "unset")' if not bad else
                   'manifest priority passes through a truthiness default: '
                   'an explicit priority 0 is treated as unset',
                   construct=N.txt(expr)[:100])
    ctx.require(hits >= 1, "reads of manifest['priority'] in load_app")


def check(ctx):
    _alloc, priv, merged = _generators(ctx)
    _sort_key(ctx, priv)
    _rank(ctx, priv)
    _sentinel(ctx, priv, merged)
    _layout(ctx, priv, merged)
    _exactly_once(ctx, priv, merged)
    _single_membership(ctx)
    _unplaced(ctx)
    _manifest_priority(ctx)


_S = 'lib/python/treadmill/scheduler/__init__.py'
_L = 'lib/python/treadmill/scheduler/loader.py'

MUTANTS = [
    ('key-priority-ascending', [(_S, """            return (-app.priority, 0 if app.server else 1,
""", """            return (app.priority, 0 if app.server else 1,
""")], 'C06.1'),
    ('key-pending-first', [(_S, """            return (-app.priority, 0 if app.server else 1,
""", """            return (-app.priority, 1 if app.server else 0,
""")], 'C06.1'),
    ('key-no-tiebreak', [(_S, """            return (-app.priority, 0 if app.server else 1,
                    app.global_order, app.name)
""", """            return (-app.priority, 0 if app.server else 1)
""")], 'C06.1'),
    ('sort-reversed', [(_S, """        prio_queue = sorted(six.viewvalues(self.apps), key=_app_key)
""", """        prio_queue = sorted(six.viewvalues(self.apps), key=_app_key,
                            reverse=True)
""")], 'C06.1'),
    ('queue-skips-unplaced-zero-prio', [(_S, """        prio_queue = sorted(six.viewvalues(self.apps), key=_app_key)
""", """        prio_queue = sorted([app for app in six.viewvalues(self.apps)
                             if app.priority or app.server], key=_app_key)
""")], 'C06.5'),
    ('cap-off-by-one', [(_S, """            if util_after <= self.max_utilization - 1:
""", """            if util_after <= self.max_utilization:
""")], 'C06.2'),
    ('cap-strict', [(_S, """            if util_after <= self.max_utilization - 1:
""", """            if util_after < self.max_utilization - 1:
""")], 'C06.2'),
    ('boost-on-after', [(_S, """                if util_before < 0:
                    rank -= self.rank_adjustment
""", """                if util_after < 0:
                    rank -= self.rank_adjustment
""")], 'C06.2'),
    ('boost-adds', [(_S, """                    rank -= self.rank_adjustment
""", """                    rank += self.rank_adjustment
""")], 'C06.2'),
    ('sentinel-only-before-in-merge', [(_S, """            if app.priority == 0:
                util_before = _MAX_UTILIZATION
                util_after = _MAX_UTILIZATION

            # - lower rank allocations take precedence.""", """            if app.priority == 0:
                util_after = _MAX_UTILIZATION

            # - lower rank allocations take precedence.""")], 'C06.3'),
    ('sentinel-priority-one', [(_S, """            if app.priority == 0:
                util_before = _MAX_UTILIZATION
                util_after = _MAX_UTILIZATION

            # All things equal""", """            if app.priority <= 1:
                util_before = _MAX_UTILIZATION
                util_after = _MAX_UTILIZATION

            # All things equal""")], 'C06.3'),
    ('layout-swapped-in-merge', [(_S, """            entry = (rank, util_before, util_after, pending, order, app)
            if visitor:""", """            entry = (rank, util_after, util_before, pending, order, app)
            if visitor:""")], 'C06.4'),
    ('consumer-reads-after', [(_S, """            util = item[1]
""", """            util = item[2]
""")], 'C06.4'),
    ('merge-skips-pending-beyond', [(_S, """            entry = (rank, util_before, util_after, pending, order, app)
            if visitor:
                visitor(self, entry, acc_demand)
""", """            entry = (rank, util_before, util_after, pending, order, app)
            if rank == _UNPLACED_RANK and pending:
                continue
            if visitor:
                visitor(self, entry, acc_demand)
""")], 'C06.5'),
    ('merge-forgets-private-queue', [(_S, """        queues.append(self.priv_utilization_queue())

""", """
""")], 'C06.5'),
    ('schedule-alloc-filters', [(_S, """        queue = [item[-1] for item in util_queue]
""", """        queue = [item[-1] for item in util_queue if item[0] < sys.maxsize]
""")], 'C06.5'),
    ('unplaced-keeps-running', [(_S, """            if app.final_rank == _UNPLACED_RANK:
                if app.server:
                    assert app.server in servers
                    assert app.has_identity()
                    servers[app.server].remove(app.name)

                app.release_identity()
                continue
""", """            if app.final_rank == _UNPLACED_RANK:
                if not app.server:
                    app.release_identity()
                continue
""")], 'C06.6'),
    ('unplaced-other-symbol', [(_S, """            if app.final_rank == _UNPLACED_RANK:
""", """            if app.final_rank == DEFAULT_RANK * MAX_PRIORITY:
""")], 'C06.6'),
    ('manifest-priority-falsy-default', [(_L, """        if 'priority' in manifest and int(manifest['priority']) != -1:
            priority = int(manifest['priority'])
""", """        manifest_priority = int(manifest.get('priority') or -1)
        if manifest_priority != -1:
            priority = manifest_priority
""")], 'C06.7'),
]

REFACTORS = [
    ('key-lambda', [(_S, """        prio_queue = sorted(six.viewvalues(self.apps), key=_app_key)
""", """        prio_queue = sorted(
            six.viewvalues(self.apps),
            key=lambda a: (-a.priority, 0 if a.server else 1,
                           a.global_order, a.name))
""")]),
    ('key-not-server', [(_S, """            return (-app.priority, 0 if app.server else 1,
""", """            return (-app.priority, not app.server,
""")]),
    ('cap-rearranged', [(_S, """            if util_after <= self.max_utilization - 1:
""", """            if util_after + 1 <= self.max_utilization:
""")]),
    ('rank-branches-swapped', [(_S, """            if util_after <= self.max_utilization - 1:
                rank = self.rank
                if util_before < 0:
                    rank -= self.rank_adjustment
            else:
                rank = _UNPLACED_RANK
""", """            if util_after > self.max_utilization - 1:
                rank = _UNPLACED_RANK
            else:
                rank = self.rank
                if util_before < 0:
                    rank -= self.rank_adjustment
""")]),
    ('manifest-priority-local', [(_L, """        if 'priority' in manifest and int(manifest['priority']) != -1:
            priority = int(manifest['priority'])
""", """        if 'priority' in manifest:
            manifest_priority = int(manifest['priority'])
            if manifest_priority != -1:
                priority = manifest_priority
""")]),
]
