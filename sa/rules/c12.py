"""C12 - the node's manifest cache mirrors what is placed on the node."""

import ast

from .. import cfg as C
from .. import norm as N
from ..index import try_fold
from . import common as K

EM = 'treadmill.eventmgr'
FS = 'treadmill.fs'
ACM = 'treadmill.appcfgmgr'

EXPLANATION = """
C12.1 REGION in EventMgr._synchronize (Venn regions of the cache listing and
the placement list): unlink ranges over exactly current - expected, fetch
over at least expected - current, and under check_existing also over
current & expected; every call of the routine reaches those loops (no early
return).  C12.2 OWNER: inside eventmgr files are created only through
fs.write_safe (the .ready marker excepted by name).  C12.3 atomicity of
fs.write_safe decided on its CFG: the temp file is created in the
destination's directory with delete=False; the content callback runs inside
the `with`; the rename is after the `with` was left normally and is the only
statement that produces `filename`; it resolves to os.replace/os.rename; on
every exit, normal or exceptional, the temp name is removed, guarded only by
'was created'.  C12.4 temp names are invisible to readers: the prefix passed
by _cache starts with '.', listings use the '*' glob, the AppCfgMgr handlers
ignore dot names before acting.  C12.5 content: the object dumped is the
/scheduled manifest after `task` was set and after update(placement_data),
read from this host's placement node.
Added by the seeding rounds - C12.1 every synchronisation reaches the loops
and the ready event is set only after the children watch was registered; C12.4
temp prefix starts with a dot and listings use the '*' glob; C12.5 the up-to-
date shortcut is taken only under file ctime >= placement creation time
(seconds, no truncation) and the cache file is written on every path that has
the manifest; thorough: only the owner modules write the cache directory.
Fourth round: C12.1 every placement notification reaches _synchronize; C12.5 a
ZooKeeper read of _cache tolerates exactly the missing node.
Sweep: C12.1 the children watch re-arms (answers True) and every notification reaches _synchronize; C12.3 the fs helpers tolerate exactly the benign errno and raise everything else, fs.replace moves temp to final; C12.5 the task id is the one of the placement record, and exactly NoNodeError is tolerated when a manifest is gone.
Fifth round: C12.5 the cache file is written in the format appcfg.manifest.load parses.
Sixth round: C12.1 a failure to cache an instance escapes _synchronize (no handler around the _cache calls).
Seventh round: no new clause (both seeds met C12.1 / C12.5 on first contact); the domain recognisers read .difference / .intersection spellings.
Eighth round: C12.1 every element of the unlink / fetch / refresh domains is acted on - no iteration of the three loops ends before its unlink or _cache call.
Ninth round: C12.1 a domain of the synchronisation that is read more than once is a collection, not a one-shot iterator; C12.3 no finally block of write_safe ends in return / break / continue.
Does NOT decide real crash atomicity of the file system nor convergence from
arbitrary prior contents beyond the set algebra.
"""

ASSUMPTIONS = [
    'os.replace / os.rename within one directory are atomic; '
    "glob('*') does not match names starting with '.'",
    'closing the temp file (leaving the with block) flushes its buffer',
]

MIN_OBLIGATIONS = 20
MIN_PER_RULE = {'C12.1': 5, 'C12.2': 1, 'C12.3': 7, 'C12.4': 4, 'C12.5': 4}


def _sync(ctx):
    em = ctx.index.get_class(EM, 'EventMgr')
    func = em.methods.get('_synchronize')
    ctx.require(func is not None, 'EventMgr._synchronize')
    graph = ctx.cfg(func)
    expected = func.params()[2]

    def is_expected(expr):
        return N.txt(expr) in (expected, 'set(%s)' % expected)

    def is_current(expr):
        if isinstance(expr, (ast.SetComp, ast.ListComp)):
            txt = K.rtxt(func, expr)
            return 'glob.glob(' in txt and 'cache_dir' in txt and \
                not expr.generators[0].ifs
        return False
    sx = K.FlowSetExpr(func, graph, {'current': is_current,
                                     'expected': is_expected})
    loops = [n for n in graph.nodes if n.kind == 'for']
    nz = N.Normaliser()
    facts = N.must_facts(graph, nz)
    seen = {}
    for loop in loops:
        body = K.loop_body_nodes(loop)
        unlinks = any(K.callee_text(c) in ('os.unlink', 'os.remove',
                                           'fs.rm_safe')
                      for n in body for c in C.node_calls(n))
        caches = [c for n in body for c in C.node_calls(n)
                  if K.is_meth(c, '_cache')]
        tabs = sx.tables(loop.ast.iter, loop)
        tab = tabs[0] if tabs else None
        if unlinks:
            want = sx.expect(lambda e: e['current'] and not e['expected'])
            seen['unlink'] = loop
            ctx.ob('C12.1', func, loop, tab == want,
                   'cache entries removed: exactly current - expected '
                   '(found %s)' % K.show_table(tab),
                   construct='unlink domain')
            var = sorted(N.for_targets(loop))[0]
            paths = [N.txt(c.args[0]) for n in body
                     for c in C.node_calls(n)
                     if K.callee_text(c) in ('os.unlink', 'os.remove',
                                             'fs.rm_safe')]
            defs = {}
            for sub in K.walk_no_nested(func.node):
                if isinstance(sub, ast.Assign) and isinstance(
                        sub.targets[0], ast.Name):
                    defs[sub.targets[0].id] = N.txt(sub.value)
            ok = all('cache_dir' in defs.get(p, p) and
                     var in defs.get(p, p) for p in paths)
            ctx.ob('C12.1', func, loop, ok,
                   'the file removed is <cache>/<that entry>',
                   construct='unlink path')
        elif caches:
            existing = any(K.kwarg(c, 'check_existing') is not None
                           for c in caches)
            if existing:
                want = sx.expect(lambda e: e['current'] and e['expected'])
                seen['existing'] = loop
                ok = tab is not None and all(
                    tab.get(r) for r, v in want.items() if v)
                guard = any(f.key[0] == 'truth' and f.key[2] and
                            f.key[1] == 'check_existing'
                            for f in facts[loop])
                ctx.ob('C12.1', func, loop, ok and guard,
                       'under check_existing the entries in current & '
                       'expected are re-validated (found %s)' %
                       K.show_table(tab), construct='existing domain')
            else:
                want = sx.expect(lambda e: e['expected'] and
                                 not e['current'])
                seen['missing'] = loop
                ok = tab is not None and all(
                    tab.get(r) for r, v in want.items() if v)
                ctx.ob('C12.1', func, loop, ok,
                       'manifests fetched for at least expected - current '
                       '(found %s)' % K.show_table(tab),
                       construct='fetch domain')
    ctx.require({'unlink', 'missing', 'existing'} <= set(seen),
                'unlink / fetch / existing loops of _synchronize',
                    rule='C12.1')
    _one_shot_domains(ctx, func)
    # every element of each domain is acted on: no iteration of the three
    # loops ends before its unlink / _cache call (an entry passed over
    # because "the instance is running" keeps a stale identity and expiry)
    for name, loop in sorted(seen.items()):
        def acts(node, name=name):
            for call in C.node_calls(node):
                if name == 'unlink' and K.callee_text(call) in (
                        'os.unlink', 'os.remove', 'fs.rm_safe'):
                    return True
                if name != 'unlink' and K.is_meth(call, '_cache'):
                    return True
            return False
        path = None
        for start in [e.dst for e in loop.succ if e.kind == 'iter']:
            if acts(start):
                continue
            path = K.find_path(start, [loop, graph.exit], cut_node=acts,
                               follow_exc=False)
            if path:
                break
        ctx.ob('C12.1', func, loop, path is None,
               'every element of the %s domain is acted on (no iteration '
               'ends before the %s)' % (name, 'unlink' if name == 'unlink'
                                        else '_cache call'),
               path=K.describe(path) if path else None,
               construct='%s loop acts on every element' % name)
    # every call reaches the loops
    for name in ('unlink', 'missing'):
        loop = seen[name]
        path = K.find_path(graph.entry, [graph.exit],
                           cut_node=lambda n, lp=loop: n is lp,
                           follow_exc=False)
        ctx.ob('C12.1', func, loop, path is None,
               'every synchronisation reaches the %s loop (no early '
               'return)' % name, path=K.describe(path) if path else None,
               construct='%s loop always reached' % name)
    # a synchronisation that could not write a file does not end as if it
    # had: a failure of _cache escapes _synchronize (the service dies, is
    # restarted and synchronises again) - nothing in _synchronize handles
    # it and goes on to report the cache ready
    handled = []
    for node, call in K.nodes_calling(graph, lambda c: K.is_meth(
            c, '_cache')):
        for edge in node.succ:
            if edge.kind != 'exc':
                continue
            reach = K.cut_reach(graph, edge.dst, follow_exc=True)
            if any(n.kind == 'handler' for n in reach | {edge.dst}):
                handled.append(node)
    ctx.ob('C12.1', func, handled[0] if handled else None, not handled,
           'a failure to cache an instance escapes _synchronize (no handler '
           'around the _cache calls)', construct='cache failure escapes')
    loop = seen['existing']
    path = K.find_path(graph.entry, [graph.exit],
                       cut_node=lambda n: n is loop,
                       cut_edge=lambda e: K.truth_edge(
                           nz, e, 'check_existing', False),
                       follow_exc=False)
    ctx.ob('C12.1', func, loop, path is None,
           'with check_existing every synchronisation reaches the '
           're-validation loop', path=K.describe(path) if path else None,
           construct='existing loop reached under check_existing')
    return em


def _owner(ctx):
    mod = ctx.index.module(EM)
    n = 0
    for func in mod.live_functions():
        for sub in K.walk_no_nested(func.node):
            if not isinstance(sub, ast.Call):
                continue
            name = K.callee_text(sub)
            creates = False
            if name in ('open', 'io.open') and len(sub.args) > 1 and \
                    isinstance(sub.args[1], ast.Constant) and \
                    any(ch in str(sub.args[1].value) for ch in 'wax+'):
                creates = True
            if name in ('os.rename', 'os.replace', 'os.symlink', 'os.link',
                        'shutil.copy', 'shutil.copyfile', 'shutil.move',
                        'os.mknod', 'os.open', 'utils.touch'):
                creates = True
            if not creates:
                continue
            n += 1
            # the marker by what it is: <cache dir>/.ready, whatever the
            # local holding the path is called
            arg = K.rtxt(func, sub.args[0]) if sub.args else ''
            ok = 'cache_dir' in arg and 'READY' in arg.upper() and \
                func.name == '_cache_notify'
            ctx.ob('C12.2', func, sub, ok,
                   'the only file eventmgr creates without fs.write_safe is '
                   'the .ready marker' if ok else
                   'a file is created in eventmgr without fs.write_safe: %s'
                   % N.txt(sub))
    ctx.require(n >= 1, 'direct file creations in eventmgr', rule='C12.2')


def _failures_escape_write(ctx, func):
    """C12.3: a write that failed is reported: no ``finally`` block of
    write_safe ends in a return / break / continue (each of them discards
    the exception in flight, and the caller goes on as if the file had been
    written)."""
    bad = []
    blocks = 0
    for sub in K.walk_no_nested(func.raw):
        if isinstance(sub, ast.Try) and sub.finalbody:
            blocks += 1
            for st in sub.finalbody:
                for leaf in ast.walk(st):
                    if isinstance(leaf, (ast.Return, ast.Break,
                                         ast.Continue)):
                        bad.append(leaf)
    ctx.ob('C12.3', func, bad[0] if bad else None, not bad,
           'the clean-up of write_safe lets a failure through (no return / '
           'break / continue inside its finally: %d block(s))' % blocks,
           construct='finally does not swallow')


def _one_shot_domains(ctx, func):
    """C12.1: the three domains of a synchronisation are walked after they
    were logged: a domain read more than once is a collection, not a
    one-shot iterator (a generator expression is exhausted by the log line
    in front of its loop, and the loop body never runs)."""
    loads = {}
    for sub in K.walk_no_nested(func.raw):
        if isinstance(sub, ast.Name) and isinstance(sub.ctx, ast.Load):
            loads[sub.id] = loads.get(sub.id, 0) + 1
    judged = 0
    for sub in K.walk_no_nested(func.raw):
        if isinstance(sub, ast.For) and isinstance(sub.iter, ast.Name):
            name = sub.iter.id
            defs = [st.value for st in K.walk_no_nested(func.raw)
                    if isinstance(st, ast.Assign) and any(
                        isinstance(t, ast.Name) and t.id == name
                        for t in st.targets)]
            if not defs:
                continue
            judged += 1
            lazy = [d for d in defs if isinstance(d, ast.GeneratorExp) or (
                isinstance(d, ast.Call) and K.callee_text(d) in (
                    'map', 'filter', 'iter', 'zip', 'six.moves.filter',
                    'six.moves.map', 'itertools.filterfalse',
                    'itertools.chain'))]
            ok = not (lazy and loads.get(name, 0) > 1)
            ctx.ob('C12.1', func, sub, ok,
                   'the domain %s is a collection when it is read more than '
                   'once (%d reads)' % (name, loads.get(name, 0)),
                   construct='domain %s is not a one-shot iterator' % name)
    ctx.require(judged >= 1, 'named domains walked by _synchronize (found '
                '%d)' % judged, rule='C12.1')


def _write_safe(ctx):
    index = ctx.index
    fs = index.module(FS)
    func = fs.functions.get('write_safe')
    ctx.require(func is not None, 'fs.write_safe')
    _failures_escape_write(ctx, func)
    graph = ctx.cfg(func)
    dest = func.params()[0]
    cb = func.params()[1]
    withs = [n for n in graph.nodes if n.kind == 'with_enter' and
             'NamedTemporaryFile' in N.txt(n.ast.items[0].context_expr)]
    enter = K.one(withs, 'with NamedTemporaryFile(...) in write_safe')
    call = enter.ast.items[0].context_expr
    tmp = N.txt(enter.ast.items[0].optional_vars)
    dirkw = K.kwarg(call, 'dir')
    delkw = K.kwarg(call, 'delete')
    defs = {}
    for sub in K.walk_no_nested(func.node):
        if isinstance(sub, ast.Assign) and isinstance(sub.targets[0],
                                                      ast.Name):
            defs.setdefault(sub.targets[0].id, []).append(N.txt(sub.value))
    dsrc = defs.get(N.txt(dirkw), []) if dirkw is not None else []
    if dirkw is not None and not dsrc:
        dsrc = [N.txt(dirkw)]
    # ... each read through the locals it is built from, a conditional
    # expression counting as two bindings
    cases = []
    for sub in K.walk_no_nested(func.node):
        if isinstance(sub, ast.Assign) and dirkw is not None and \
                N.txt(sub.targets[0]) == N.txt(dirkw):
            val = sub.value
            for part in ([val.body, val.orelse]
                         if isinstance(val, ast.IfExp) else [val]):
                text = K.rtxt(func, part)
                # a join on the variable itself keeps its own spelling
                cases.append(N.txt(part) if N.txt(part).startswith(
                    'os.path.join(%s,' % N.txt(dirkw)) else text)
    if cases:
        dsrc = cases
    # every binding is the destination's directory or a sub-directory of it
    # (of the variable itself, or of dirname(dest) spelled out)
    base = 'os.path.dirname(%s)' % dest
    ok = bool(dsrc) and all(
        s == base or s.startswith('os.path.join(%s,' % base) or
        (s.startswith('os.path.join(%s,' % N.txt(dirkw)) and base in dsrc)
        for s in dsrc)
    ctx.ob('C12.3', func, enter, ok,
           "the temp file is created in the destination's directory: "
           'dir=%s <- %s' % (N.txt(dirkw) if dirkw is not None else None,
                             dsrc), construct='temp file directory')
    ctx.ob('C12.3', func, enter,
           isinstance(delkw, ast.Constant) and delkw.value is False,
           'delete=False (the rename owns the file)',
           construct='temp file delete=False')
    body = set()
    for stmt in enter.ast.body:
        for sub in ast.walk(stmt):
            body.add(id(sub))
    cbs = [n for n in graph.nodes for c in C.node_calls(n)
           if isinstance(c.func, ast.Name) and c.func.id == cb]
    ctx.ob('C12.3', func, cbs[0] if cbs else enter,
           bool(cbs) and all(id(n.ast) in body for n in cbs),
           'the content callback runs inside the with block',
           construct='callback inside with')
    renames = [(n, c) for n in graph.nodes for c in C.node_calls(n)
               if K.callee_text(c) in ('replace', 'os.replace', 'os.rename',
                                       'fs.replace') and len(c.args) == 2
               and N.txt(c.args[1]) == dest]
    ctx.ob('C12.3', func, renames[0][0] if renames else enter,
           len(renames) == 1 and
           N.txt(renames[0][1].args[0]) == '%s.name' % tmp,
           'exactly one rename of the temp name onto the destination',
           construct='rename temp -> destination')
    exits = [n for n in graph.nodes if n.kind == 'with_exit' and
             n.ast is enter.ast]
    for node, _c in renames:
        inside = id(node.ast) in body
        normal_exits = [x for x in exits if any(
            e.kind != 'exc' for e in x.pred)]
        dominated = K.guarded_by(
            graph, node, lambda e: e.src in normal_exits and
            e.kind != 'exc', follow_exc=False)
        ctx.ob('C12.3', func, node, not inside and dominated,
               'the rename happens after the with block was left (file '
               'closed and flushed)' if not inside else
               'the rename happens inside the with block: the destination '
               'name can expose a file whose buffered content was not '
               'written yet')
    others = []
    for node in graph.nodes:
        for c in C.node_calls(node):
            name = K.callee_text(c)
            if name in ('open', 'io.open', 'os.open', 'shutil.copy',
                        'shutil.copyfile', 'os.link', 'os.symlink') and \
                    c.args and N.txt(c.args[0]) == dest:
                others.append(node)
            if name in ('shutil.copy', 'shutil.copyfile', 'shutil.move',
                        'os.link', 'os.symlink') and len(c.args) > 1 and \
                    N.txt(c.args[1]) == dest:
                others.append(node)
    ctx.ob('C12.3', func, others[0] if others else None, not others,
           'nothing but the rename produces the destination name',
           construct='no other writer of the destination')
    # replace() resolves to os.replace / os.rename
    rep = fs.functions.get('replace')
    ctx.require(rep is not None, 'fs.replace')
    prims = set()
    for sub in K.walk_no_nested(rep.node):
        if isinstance(sub, ast.Call):
            prims.add(K.callee_text(sub))
    posix = [p for p in prims if p in ('os.replace', 'os.rename')]
    bad = [p for p in prims if p.startswith('shutil.') or p in (
        'os.link', 'os.symlink', 'open')]
    ctx.ob('C12.3', rep, None, bool(posix) and not bad,
           'fs.replace is a rename primitive: %s' % sorted(prims),
           construct='fs.replace primitives')
    # cleanup of the temp name on every exit
    nz = N.Normaliser()

    def removes(node):
        return any(K.callee_text(c) in ('rm_safe', 'os.unlink', 'os.remove',
                                        'fs.rm_safe') and c.args and
                   N.txt(c.args[0]) == '%s.name' % tmp
                   for c in C.node_calls(node))
    starts = [e.dst for e in enter.succ if e.kind != 'exc']
    path = None
    for start in starts:
        path = path or K.find_path(
            enter, [graph.exit, graph.raise_exit], cut_node=removes,
            cut_edge=lambda e: (e.src is enter and e.kind == 'exc') or
            any(a.key[0] == 'is' and a.key[3] and a.key[1] == tmp and
                a.key[2] == 'None' for a in nz.facts_of_edge(e)),
            follow_exc=True)
    ctx.ob('C12.3', func, enter, path is None,
           'once the temp file exists, every exit (normal or exceptional) '
           'removes the temp name', path=C.describe_path(path, False)
           if path else None, construct='temp name removed on every exit')
    facts = N.must_facts(graph, nz)
    for node in graph.nodes:
        if removes(node):
            mine = [N.show(f) for f in N.raw_only(facts[node])
                    if not (f.key[0] == 'is' and not f.key[3] and
                            f.key[1] == tmp and f.key[2] == 'None') and
                    not (f.key[0] == 'truth' and f.key[1] == tmp) and
                    tmp in ' '.join(f.mentions) or
                    (f.mentions & {'fsync', 'utimes', 'permission',
                                   'owner'})]
            ctx.ob('C12.3', func, node, not mine,
                   "the removal is guarded only by 'was created'%s" % (
                       ' (also: %s)' % mine if mine else ''),
                   construct='cleanup guard [%s]' % K.controlling(node,
                                                                  graph))
    return func


def _invisible(ctx, em):
    index = ctx.index
    cache = em.methods.get('_cache')
    ctx.require(cache is not None, 'EventMgr._cache')
    calls = [s for s in K.walk_no_nested(cache.node)
             if isinstance(s, ast.Call) and
             K.callee_text(s) == 'fs.write_safe']
    ctx.require(calls, 'fs.write_safe call in _cache', rule='C12.4')
    for call in calls:
        pref = K.kwarg(call, 'prefix')
        if pref is not None:
            pref = K.rexpr(cache, pref)
        lit = None
        if isinstance(pref, ast.BinOp) and isinstance(pref.op, ast.Mod) and \
                isinstance(pref.left, ast.Constant):
            lit = pref.left.value
        elif isinstance(pref, ast.Constant):
            lit = pref.value
        elif isinstance(pref, ast.JoinedStr) and pref.values and \
                isinstance(pref.values[0], ast.Constant):
            lit = pref.values[0].value
        elif isinstance(pref, ast.Call) and K.is_meth(pref, 'format') and \
                isinstance(K.recv(pref), ast.Constant):
            lit = K.recv(pref).value
        ctx.ob('C12.4', cache, call,
               isinstance(lit, str) and lit.startswith('.'),
               "the temp prefix starts with '.': %r" % (lit,),
               construct='temp prefix')
    # listings use the '*' glob
    for modname, clsname, fname in ((EM, 'EventMgr', '_synchronize'),
                                    (ACM, 'AppCfgMgr', '_synchronize')):
        cls = index.get_class(modname, clsname)
        func = cls.methods.get(fname)
        ctx.require(func is not None, '%s.%s' % (clsname, fname))
        # the pattern may be built in a local first
        pats = [K.rexpr(func, s) for s in K.walk_no_nested(func.node)
                if isinstance(s, ast.Call) and
                K.callee_text(s) == 'glob.glob']
        pats = [p for p in pats if 'cache_dir' in N.txt(p)]
        ok = bool(pats) and all(
            isinstance(p.args[0], ast.Call) and
            isinstance(p.args[0].args[-1], ast.Constant) and
            p.args[0].args[-1].value == '*' for p in pats)
        ctx.ob('C12.4', func, pats[0] if pats else None, ok,
               "the cache listing uses the '*' glob (dot names excluded)",
               construct='cache listing pattern in %s' % clsname)
    acm = index.get_class(ACM, 'AppCfgMgr')
    nz = N.Normaliser()
    for fname in ('_on_created', '_on_deleted'):
        func = acm.methods.get(fname)
        ctx.require(func is not None, 'AppCfgMgr.%s' % fname)
        graph = ctx.cfg(func)
        acts = [n for n, c in K.nodes_calling(
            graph, lambda c: K.is_meth(c, '_configure', '_terminate'))]
        ctx.require(acts, 'action of %s' % fname, rule='C12.4')
        for node in acts:
            def not_dot(edge):
                for atom in nz.facts_of_edge(edge):
                    if atom.key[0] == 'cmp' and atom.key[1] == '!=' and \
                            "'.'" in [t for t, _c in atom.key[2]]:
                        return True
                    if atom.key[0] == 'truth' and not atom.key[2] and \
                            ".startswith('.')" in atom.key[1]:
                        return True
                return False
            ctx.ob('C12.4', func, node, K.guarded_by(graph, node, not_dot),
                   'dot names (temp files) are ignored before acting')


def _in_handler(graph, node):
    """node lies in an except handler (reached only through exceptional
    edges from the entry)."""
    normal = K.cut_reach(graph, graph.entry, follow_exc=False)
    return node not in normal


def _content(ctx, em):
    cache = em.methods.get('_cache')
    graph = ctx.cfg(cache)
    nz = N.Normaliser()
    app = cache.params()[2]
    writes = K.nodes_calling(graph, lambda c: K.callee_text(c) ==
                             'fs.write_safe')
    defs = {}
    for sub in K.walk_no_nested(cache.node):
        if isinstance(sub, ast.Assign) and isinstance(sub.targets[0],
                                                      ast.Name):
            defs[sub.targets[0].id] = N.txt(sub.value)
    for node, call in writes:
        lam = call.args[1] if len(call.args) > 1 else None
        dumped = None
        inner = None
        if isinstance(lam, ast.Lambda):
            inner = lam.body
        elif isinstance(lam, ast.Name) and lam.id in cache.nested_view():
            body = K._fn_body(cache.nested_view()[lam.id].raw)
            if len(body) == 1 and isinstance(body[0], (ast.Expr,
                                                       ast.Return)):
                inner = body[0].value
        if isinstance(inner, ast.Call) and inner.args:
            dumped = N.txt(inner.args[0])
        # the dumped object under all its names (a helper's result is
        # bound to a local of its own before it is handed on)
        names = set([dumped])
        for _round in range(3):
            for sub in K.walk_no_nested(cache.node):
                if isinstance(sub, ast.Assign) and \
                        N.txt(sub.targets[0]) in names and \
                        isinstance(sub.value, ast.Name):
                    names.add(sub.value.id)
        ddef = [s.value for s in K.walk_no_nested(cache.node)
                if isinstance(s, ast.Assign) and
                N.txt(s.targets[0]) in names and
                not (isinstance(s.value, ast.Name) and
                     s.value.id in names)]
        okd = len(ddef) == 1 and isinstance(ddef[0], ast.Call) and \
            K.callee_text(ddef[0]) == 'zkutils.get' and \
            len(ddef[0].args) == 2 and \
            K.rtxt(cache, ddef[0].args[1]) == 'z.path.scheduled(%s)' % app
        ctx.ob('C12.5', cache, node, dumped is not None and okd,
               'the object dumped is the /scheduled manifest of that '
               'instance: %s = %s' % (dumped, defs.get(dumped)),
               construct='dumped object')
        # the file is written in the format its reader parses
        # (appcfg.manifest.load reads the event file as YAML)
        wfmt = None
        if isinstance(inner, ast.Call) and isinstance(
                inner.func, ast.Attribute) and inner.func.attr in (
                    'dump', 'safe_dump', 'dumps') and isinstance(
                        inner.func.value, ast.Name):
            target = cache.module.imports.get(inner.func.value.id, '')
            if 'yaml' in target:
                wfmt = 'yaml'
            elif target.split('.')[-1] == 'json':
                wfmt = 'json'
        rmod = ctx.index.module('treadmill.appcfg.manifest')
        rload = rmod.functions.get('load') if rmod else None
        ctx.require(rload is not None, 'appcfg.manifest.load', rule='C12.5')
        rfmt = None
        for rc in K.calls(rload.node):
            if K.callee_text(rc) == 'read' and len(rc.args) == 2 and \
                    isinstance(rc.args[1], ast.Constant):
                rfmt = rc.args[1].value
            elif K.callee_text(rc) == 'read' and K.kwarg(
                    rc, 'file_format') is not None and isinstance(
                        K.kwarg(rc, 'file_format'), ast.Constant):
                rfmt = K.kwarg(rc, 'file_format').value
            elif K.callee_text(rc).endswith('yaml.load'):
                rfmt = 'yaml'
        ctx.ob('C12.5', cache, node, wfmt is not None and wfmt == rfmt,
               'the cache file is written in the format its reader parses '
               '(writer: %s, reader: %s)' % (wfmt, rfmt),
               construct='serialiser agrees with the reader')
        tasks = [n for n in graph.nodes if n.kind == 'stmt' and
                 isinstance(n.ast, ast.Assign) and
                 N.txt(n.ast.targets[0]) in ["%s['task']" % nm
                                             for nm in names]]
        ok = bool(tasks) and K.guarded_by(graph, node,
                                          lambda e: e.src in tasks)
        ctx.ob('C12.5', cache, node, ok,
               'the task id is set before the manifest is written',
               construct='task set before write')
        # ... and is the part of the instance name behind its '#'
        want = ("%s[%s.index('#') + 1:]" % (app, app),
                "%s.rpartition('#')[2]" % app, "%s.split('#')[1]" % app,
                "%s.rsplit('#', 1)[1]" % app)
        ctx.ob('C12.5', cache, tasks[0] if tasks else node,
               bool(tasks) and all(
                   K.rtxt(cache, t.ast.value) in want for t in tasks),
               "the task id is the instance id (what follows '#' in the "
               'name): %s' % [K.rtxt(cache, t.ast.value) for t in tasks],
               construct='task id value')
        # the placement record: first component of the first
        # get_with_metadata(...) result
        pdata = 'placement_data'
        for sub in K.walk_no_nested(cache.node):
            if isinstance(sub, ast.Assign) and \
                    isinstance(sub.targets[0], ast.Tuple) and \
                    len(sub.targets[0].elts) == 2 and \
                    isinstance(sub.value, ast.Call) and \
                    K.callee_text(sub.value).endswith('get_with_metadata'):
                pdata = N.txt(sub.targets[0].elts[0])
                break
        upd = [n for n, c in K.nodes_calling(
            graph, lambda c: K.is_meth(c, 'update') and
            K.recv_text(c) in names and c.args and
            N.txt(c.args[0]) == pdata)]
        ok = bool(upd) and K.guarded_by(
            graph, node, lambda e: e.src in upd or any(
                a.key[0] == 'is' and a.key[1] == pdata and
                a.key[2] == 'None' and a.key[3]
                for a in nz.facts_of_edge(e)))
        ctx.ob('C12.5', cache, node, ok,
               'the placement data (identity, expiry) is merged before the '
               'manifest is written', construct='placement merged before '
                                                'write')
        ctx.ob('C12.5', cache, node,
               K.rtxt(cache, call.args[0]) ==
               'os.path.join(self.tm_env.cache_dir, %s)' % app,
               'written to <cache>/<instance>', construct='cache path')
    # the only way to leave without writing although the placement exists:
    # the cached file is at least as new as the placement record
    adefs = {}
    for sub in K.walk_no_nested(cache.node):
        if isinstance(sub, ast.Assign) and isinstance(sub.targets[0],
                                                      ast.Name):
            adefs.setdefault(sub.targets[0].id, []).append(sub.value)

    def fresh(atom):
        # <placement creation time, s> <= <change time of the cached file>,
        # over the locals of _cache or, seen through a helper, over the
        # expressions themselves
        from fractions import Fraction
        key = atom.key
        if key[0] != 'cmp' or key[1] != '<=' or len(key[2]) != 2:
            return False
        coef = dict(key[2])
        older = [t for t, c in coef.items() if c > 0]
        newer = [t for t, c in coef.items() if c < 0]
        if len(older) != 1 or len(newer) != 1 or '' in coef:
            return False
        ratio = Fraction(coef[older[0]]) / -Fraction(coef[newer[0]])
        pdef = adefs.get(older[0], []) if older[0].isidentifier() else None
        if pdef is not None:
            okp = len(pdef) == 1 and ratio == 1 and \
                K.exact_ms_to_s(pdef[0]) is not None
        else:
            try:
                term = ast.parse(older[0], mode='eval').body
            except SyntaxError:
                term = None
            okp = (ratio == Fraction(1, 1000) and
                   older[0].rsplit('.', 1)[-1] in ('ctime', 'created')) or \
                (ratio == 1 and term is not None and
                 K.exact_ms_to_s(term) is not None)
        if newer[0].isidentifier():
            mdef = [v for v in adefs.get(newer[0], [])
                    if not (isinstance(v, ast.Constant) and
                            v.value is None)]
            okm = len(mdef) == 1 and \
                N.txt(mdef[0]).startswith('os.stat(') and \
                N.txt(mdef[0]).endswith('.st_ctime')
        else:
            okm = newer[0].startswith('os.stat(') and \
                newer[0].endswith('.st_ctime')
        return okp and okm
    for node in graph.nodes:
        if node.kind != 'return' or any(node is w for w, _c in writes):
            continue
        if _in_handler(graph, node):
            continue
        path = K.find_path(graph.entry, [node],
                           cut_node=lambda n: any(n is w for w, _c in writes),
                           follow_exc=True)
        if path is None:
            continue
        ok = K.guarded_by_atoms(ctx, cache, graph, node, fresh, nz,
                                follow_exc=False)
        ctx.ob('C12.5', cache, node, ok,
               'an existing cache file is kept only when its change time '
               'is >= the creation time of the placement record (seconds, '
               'converted from milliseconds without truncation)',
               construct='up-to-date shortcut [%s]' %
               K.controlling(node, graph))
    # ... and with the placement and the manifest present, the file is
    # written on every other path (missing nodes are exceptional edges)
    skip = K.find_path(
        graph.entry, [graph.exit],
        cut_node=lambda n: any(n is w for w, _c in writes),
        cut_edge=lambda e: K.edge_establishes(ctx, cache, nz, e, fresh),
        follow_exc=False)
    ctx.ob('C12.5', cache, writes[0][0] if writes else None, skip is None,
           'a placed instance whose manifest exists gets its cache file '
           'written unless the existing file is up to date',
           path=K.describe(skip) if skip else None,
           construct='cache file written on every path')
    # the node the placement data is read from (first get_with_metadata)
    reads = [c for c in K.calls(cache.node)
             if K.callee_text(c).endswith('get_with_metadata') and
             len(c.args) >= 2]
    pn = K.rtxt(cache, reads[0].args[1]) if reads else ''
    ctx.ob('C12.5', cache, None,
           pn == 'z.path.placement(self._hostname, %s)' % app,
           "placement data is read from this host's placement node: %s" %
           pn, construct='placement node')


def _tolerated_faults(ctx, em):
    """C12.5: the only ZooKeeper fault _cache tolerates is the node not
    being there.  Any other fault must escape (the agent restarts and
    synchronises again) - swallowing it ends the synchronisation "normally"
    with a placed instance missing from the cache."""
    cache = em.methods.get('_cache')
    ctx.require(cache is not None, 'EventMgr._cache')
    count = 0
    for sub in K.walk_no_nested(cache.node):
        if not isinstance(sub, ast.Try):
            continue
        reads = [c for st in sub.body for c in K.calls(st)
                 if K.callee_text(c).startswith('zkutils.') or
                 'zkclient' in N.txt(c.func)]
        if not reads:
            continue
        for hdl in sub.handlers:
            count += 1
            types = hdl.type.elts if isinstance(hdl.type, ast.Tuple) else \
                [hdl.type]
            ok = hdl.type is not None and all(
                N.txt(t).endswith('NoNodeError') for t in types)
            ctx.ob('C12.5', cache, hdl, ok,
                   'a ZooKeeper read of _cache tolerates exactly the '
                   'missing node (handler: %s)' % (
                       N.txt(hdl.type) if hdl.type is not None else 'bare'),
                   construct='tolerated fault %s' % (
                       N.txt(hdl.type) if hdl.type is not None else 'bare'))
    ctx.require(count >= 2, 'handlers around the ZooKeeper reads of _cache',
        rule='C12.5')


def _first_sync(ctx, em):
    """The first synchronisation after a start re-checks the files that
    already exist: the watch callback asks for check_existing while the
    'placement ready' event is not yet set, and the event is set only after
    the children watch was registered (kazoo runs the callback once,
    synchronously, when the watch is registered)."""
    run = em.methods.get('run')
    ctx.require(run is not None, 'EventMgr.run')
    nested = run.nested()
    flag = None
    watch = None
    for name, func in nested.items():
        for sub in K.walk_no_nested(func.node):
            if isinstance(sub, ast.Call) and K.is_meth(sub, '_synchronize'):
                arg = K.kwarg(sub, 'check_existing')
                if arg is None and len(sub.args) > 2:
                    arg = sub.args[2]
                arg = K.rexpr(func, arg) if arg is not None else None
                ok = isinstance(arg, ast.UnaryOp) and \
                    isinstance(arg.op, ast.Not) and \
                    isinstance(arg.operand, ast.Call) and \
                    K.is_meth(arg.operand, 'is_set')
                ctx.ob('C12.1', func, sub, ok,
                       'the watch callback checks existing files until the '
                       'placement-ready event is set: check_existing=%s' %
                       (N.txt(arg) if arg is not None else None),
                       construct='check_existing of the watch callback')
                if ok:
                    flag = K.recv_text(arg.operand)
                    watch = name
    ctx.require(flag is not None, 'watch callback calling _synchronize',
        rule='C12.1')
    # every notification synchronises: no path through the callback leaves
    # before _synchronize was called (an "empty placement, nothing to do"
    # shortcut would keep the leftovers of a drained node for ever)
    wfunc = nested[watch]
    wgraph = ctx.cfg(wfunc)
    skip = K.find_path(
        wgraph.entry, [wgraph.exit],
        cut_node=lambda n: any(K.is_meth(c, '_synchronize')
                               for c in C.node_calls(n)),
        follow_exc=False)
    ctx.ob('C12.1', wfunc, None, skip is None,
           'every placement notification reaches _synchronize',
           path=K.describe(skip) if skip else None,
           construct='watch callback always synchronises')
    # a kazoo watch callback that returns a false value is never called
    # again: the placement watch answers True on every exit, or the cache
    # stops following the placement after the first notification
    rets = [n for n in wgraph.nodes if n.kind == 'return']
    falls = [e for e in wgraph.exit.pred
             if e.src.kind not in ('return', 'raise_stmt') and
             e.kind != 'exc']
    okr = bool(rets) and not falls and all(
        isinstance(r.ast.value, ast.Constant) and r.ast.value.value is True
        for r in rets)
    ctx.ob('C12.1', wfunc, rets[0] if rets else None, okr,
           'the placement watch callback keeps the watch alive (returns '
           'True on every exit)', construct='watch callback result')
    registered = 0
    for func in [run] + list(nested.values()):
        graph = ctx.cfg(func)
        regs = [n for n, c in K.nodes_calling(
            graph, lambda c: K.is_meth(c, 'ChildrenWatch') and any(
                N.txt(a) == watch for a in c.args))]
        if not regs:
            continue
        registered += len(regs)
        sets = [n for n, c in K.nodes_calling(
            graph, lambda c: K.is_meth(c, 'set') and
            K.recv_text(c) == flag)]
        for node in sets:
            ok = K.guarded_by(graph, node, lambda e: e.src in regs and
                              e.kind != 'exc')
            ctx.ob('C12.1', func, node, ok,
                   'the placement-ready event is set only after the '
                   'children watch was registered (its first, synchronous '
                   'callback still sees the event clear)',
                   construct='ready set after watch registration')
    ctx.require(registered >= 1, 'registration of the children watch',
        rule='C12.1')


def _owner_package(ctx):
    """Thorough tier: over the whole package the manifest cache directory is
    written only by the event manager."""
    K.owner_clause(
        ctx, 'C12.2', 'cache_dir',
        {(EM, 'EventMgr'): None,
         # named exception: the configuration manager drops the entry of an
         # instance whose configuration failed (reported as aborted)
         (ACM, 'AppCfgMgr'): {'fs.rm_safe'}},
        "the node's manifest cache", minimum=2)


def check(ctx):
    if ctx.tier in ('quick', 'thorough'):   # whole-package clause, cheap enough for every run
        _owner_package(ctx)
    em = _sync(ctx)
    _first_sync(ctx, em)
    _tolerated_faults(ctx, em)
    _owner(ctx)
    _write_safe(ctx)
    # the atomic-write helper and its relatives tolerate exactly the benign
    # race (directory already there, temp file already gone)
    fsmod = ctx.index.module(FS)
    judged = 0
    for fname in ('write_safe', 'rm_safe', 'mkdir_safe', 'replace'):
        func = fsmod.functions.get(fname)
        if func is not None:
            judged += K.tolerance_polarity(ctx, 'C12.3', func)
    ctx.require(judged >= 2, 'errno tests in the fs helpers (found %d)' %
                judged, rule='C12.3')
    # fs.replace(a, b) moves a onto b (the temp file onto the destination,
    # never the other way round)
    rep = fsmod.functions.get('replace')
    ctx.require(rep is not None, 'fs.replace')
    moves = [c for c in K.calls(rep.node)
             if K.callee_text(c) in ('os.rename', 'os.replace') or
             K.callee_text(c).endswith('MoveFileEx')]
    ctx.ob('C12.3', rep, moves[0] if moves else None,
           bool(moves) and all(
               [N.txt(a) for a in c.args[:2]] == rep.params()[:2]
               for c in moves),
           'fs.replace renames its first argument onto its second',
           construct='replace direction')
    _invisible(ctx, em)
    _content(ctx, em)


_E = 'lib/python/treadmill/eventmgr.py'
_F = 'lib/python/treadmill/fs/__init__.py'
_A = 'lib/python/treadmill/appcfgmgr.py'

MUTANTS = [
    ('foreign-writer-of-the-cache-dir', [('lib/python/treadmill/cleanup.py', '        cleanup_link = os.path.join(self.tm_env.cleanup_dir, instance)\n        try:\n            container_dir = os.readlink(cleanup_link)\n', '        cleanup_link = os.path.join(self.tm_env.cleanup_dir, instance)\n        fs.rm_safe(os.path.join(self.tm_env.cache_dir, instance))\n        try:\n            container_dir = os.readlink(cleanup_link)\n')], 'C12.2', 'thorough'),
    ('unlink-expected-minus-current', [(_E, """        extra = current_set - expected_set
""", """        extra = expected_set - current_set
""")], 'C12.1'),
    ('fetch-existing-only', [(_E, """        missing = expected_set - current_set
""", """        missing = expected_set & current_set
""")], 'C12.1'),
    ('existing-unconditional-skip', [(_E, """        if check_existing:
            _LOGGER.info('existing : %s', ','.join(existing))
""", """        if check_existing and missing:
            _LOGGER.info('existing : %s', ','.join(existing))
""")], 'C12.1'),
    ('early-return-in-sync', [(_E, """        # If app is extra, remove the entry from the cache
""", """        if not extra and not missing:
            _LOGGER.info('cache is in sync')
            return

        # If app is extra, remove the entry from the cache
""")], 'C12.1'),
    ('direct-write-in-cache', [(_E, """            fs.write_safe(
                manifest_file,
                lambda f: yaml.dump(manifest, stream=f),
                prefix='.%s-' % app,
                mode='w',
                permission=0o644
            )
""", """            with io.open(manifest_file, 'w') as f:
                yaml.dump(manifest, stream=f)
""")], 'C12'),
    ('rename-inside-with', [(_F, """                os.utime(tmpfile.name, times=utimes)

        replace(tmpfile.name, filename)
""", """                os.utime(tmpfile.name, times=utimes)

            replace(tmpfile.name, filename)
""")], 'C12.3'),
    ('temp-in-tmpdir', [(_F, """        with tempfile.NamedTemporaryFile(dir=dirname,
                                         delete=False,""", """        with tempfile.NamedTemporaryFile(dir=tempfile.gettempdir(),
                                         delete=False,""")], 'C12.3'),
    ('temp-autodelete', [(_F, """                                         delete=False,
                                         prefix=prefix,""", """                                         delete=True,
                                         prefix=prefix,""")], 'C12.3'),
    ('cleanup-only-on-error', [(_F, """        replace(tmpfile.name, filename)

    finally:
        if tmpfile is not None:
            rm_safe(tmpfile.name)
""", """        replace(tmpfile.name, filename)

    except OSError:
        if tmpfile is not None:
            rm_safe(tmpfile.name)
        raise
""")], 'C12.3'),
    ('copy-instead-of-rename', [(_F, """        replace(tmpfile.name, filename)

    finally:""", """        shutil.copyfile(tmpfile.name, filename)

    finally:""")], 'C12.3'),
    ('callback-after-rename', [(_F, """                                         mode=mode) as tmpfile:
            func(tmpfile)

            if permission""", """                                         mode=mode) as tmpfile:
            if permission""")], 'C12.3'),
    ('prefix-not-hidden', [(_E, """                prefix='.%s-' % app,
""", """                prefix='%s-' % app,
""")], 'C12.4'),
    ('created-handler-acts-on-dot', [(_A, """        if instance_name == eventmgr.READY_FILE:
            self._first_sync()
            return

        elif instance_name[0] == '.':
            # Ignore all dot files
            return

        elif self._is_active is False:
            # Ignore all created events while we are not running
            _LOGGER.debug('Inactive in created event handler.')
            return
""", """        if instance_name == eventmgr.READY_FILE:
            self._first_sync()
            return

        elif self._is_active is False:
            # Ignore all created events while we are not running
            _LOGGER.debug('Inactive in created event handler.')
            return
""")], 'C12.4'),
    ('write-before-merge', [(_E, """            if placement_data is not None:
                manifest.update(placement_data)

            fs.write_safe(
                manifest_file,
                lambda f: yaml.dump(manifest, stream=f),
                prefix='.%s-' % app,
                mode='w',
                permission=0o644
            )
""", """            fs.write_safe(
                manifest_file,
                lambda f: yaml.dump(manifest, stream=f),
                prefix='.%s-' % app,
                mode='w',
                permission=0o644
            )
            if placement_data is not None:
                manifest.update(placement_data)
""")], 'C12.5'),
    ('task-not-set', [(_E, """            manifest['task'] = app[app.index('#') + 1:]

""", """
""")], 'C12.5'),
]

REFACTORS = [
    ('sync-difference-method', [(_E, """        extra = current_set - expected_set
""", """        extra = current_set.difference(expected_set)
""")]),
    ('sync-inline-domain', [(_E, """        for app in missing:
            self._cache(zkclient, app)
""", """        for app in expected_set - current_set:
            self._cache(zkclient, app)
""")]),
    ('write-safe-log-added', [(_F, """        replace(tmpfile.name, filename)

    finally:""", """        _LOGGER.debug('replacing %s', filename)
        replace(tmpfile.name, filename)

    finally:""")]),
    ('prefix-format', [(_E, """                prefix='.%s-' % app,
""", """                prefix='.{}-'.format(app),
""")]),
]
