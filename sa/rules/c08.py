"""C08 - server failure handling: data retention, frozen servers, blacklist."""

import ast

from .. import cfg as C
from .. import norm as N
from . import common as K
from .sched_model import PlacementLoop

EXPLANATION = """
C08.1 the inactive-server pass moves an instance off a *down* server only
under since + retention <= now ('no retention' = immediately), off a
*frozen* server only when its unschedule flag is set, never off an up
server, and removes exactly the collected list; `since` is the state time of
that server.  C08.2 capacity eviction never takes a victim from a server that
is not up and the bucket walk skips children that are not up.  C08.3 every
placement call of the loop is dominated by 'not blacklisted'; the blacklist
pass removes exactly the blacklisted placed instances and releases their
identity.  C08.4 Cell.schedule runs the inactive-server, blacklist and
identity passes before any partition is scheduled.  C08.5 presence handling:
'went down' handling ranges over exactly (known - down) - present, 'came up'
handling over exactly down & present; the recorded (state, since) is restored
on every path before presence is applied; no presence => down, presence and
not frozen => up, frozen stays.  C08.6 state bookkeeping: since is reset only
on a state change; Master._freeze_server marks only instances found on that
server.
Added by the seeding rounds - C08.1 every contribution to the collected list
is judged on its own expiry definition (no deadline carried over from the
previous instance); C08.5 the recorded (state, since) is restored on every
path before presence is applied and the up/down sets are exact; C08.6 whatever
un-places an instance clears its unschedule mark, and _check_pending_start
keeps an entry only while the instance's server exists and is not down. Fourth
round: C08.6 the (state, since) pair is stored by Node.set_state and
constructors only.
Fifth round: C08.2 Server.put and Server.restore do not test the server state (a recorded placement on a down or frozen server is restored through them); C08.3 the blacklist pass has no condition besides blacklisted and placed, on the instance or on anything read through it; C08.6 a requested state is always stored.
Sixth round: C08.3 the blacklist is loaded before the instances (shared with C11.1); C08.5 a replaced server gets its recorded placements back (shared with C09.4) and every server that came up is reloaded.
Seventh round: C08.6 every change of the state takes the new since (down-since and frozen-since are different times); C08.3 the blacklist flag of every instance is the verdict of _is_blacklisted on its name, recomputed for all instances when the list changes.
Eighth round: C08.2 at a reload the placement recorded on a server without presence goes through the normal leaf placement and is given up without that attempt only for a schedule-once instance (shared with C11.2); C08.3 every entry of the blacklist is matched against the name as a pattern - no prefilter - and the walk is left early only with the verdict 'blacklisted'.
Ninth round: C08.6 the stored record of a server's state is written by the state recorder only, with the (state, since) pair get_state() returns. C08.1 before a server is frozen the unschedule mark of every instance on it is reset, so the marks in force are those of this freeze (F24; repaired in /repo).
Tenth round: C08.6 what the leaf removal marks on the instance (evicted) the leaf placement withdraws on every successful path - or every reader outside the scheduler also asks for 'not placed' (F25; repaired in /repo).
Does NOT decide timing ('in the first cycle after the timeout') over clock
sequences.
"""

ASSUMPTIONS = [
    'time.time() is the cycle clock',
]

MIN_OBLIGATIONS = 20
MIN_PER_RULE = {'C08.1': 6, 'C08.2': 2, 'C08.3': 4, 'C08.4': 3, 'C08.5': 6,
                'C08.6': 3}


def _state_fact(fact, var, member):
    key = fact.key
    want = sorted(['State.%s' % member, var])
    if key[0] == 'cmp' and key[1] == '==' and \
            sorted(t for t, _c in key[2]) == want:
        return True
    if key[0] == 'is' and key[3] and sorted(key[1:3]) == want:
        return True
    return False


def _pending_start(ctx, master, nz):
    """The start watchdog freezes a server only for instances that are
    expected to start there: an instance that runs, is not placed, or sits
    on a down / unknown server has no pending-start entry when the pass over
    the instances ends (a stale entry would later freeze a down server and
    mark the instance for unscheduling, cutting its data retention)."""
    func = master.methods.get('_check_pending_start')
    ctx.require(func is not None, 'Master._check_pending_start')
    graph = ctx.cfg(func)
    loops = [n for n in graph.nodes if n.kind == 'for' and
             'cell.apps' in N.txt(n.ast.iter) and
             isinstance(n.ast.target, ast.Tuple)]
    ctx.require(loops, 'pass over the instances in _check_pending_start',
        rule='C08.6')
    for loop in loops:
        name = N.txt(loop.ast.target.elts[0])

        def pops(node, name=name):
            return any(K.is_meth(c, 'pop') and
                       K.recv_text(c) == 'self.pending_start' and c.args and
                       N.txt(c.args[0]) == name for c in C.node_calls(node))

        def not_down(atom):
            key = atom.key
            if key[0] == 'cmp' and key[1] == '!=' and len(key[2]) == 2:
                terms = [t for t, _c in key[2]]
                return any(t.endswith('State.down') for t in terms) and \
                    any(t.endswith('.state') for t in terms)
            if key[0] == 'is' and not key[3]:
                return key[2].endswith('State.down') and \
                    key[1].endswith('.state')
            return False
        starts = [e.dst for e in loop.succ if e.kind == 'iter']
        path = None
        for start in starts:
            path = K.find_path_cp(
                graph, start, [loop], cut_node=pops,
                cut_edge=lambda e: K.edge_establishes(ctx, func, nz, e,
                                                      not_down),
                follow_exc=False) if not pops(start) else None
            if path:
                break
        ctx.ob('C08.6', func, loop, path is None,
               'an instance keeps a pending-start entry only while its '
               'server is not down; every other end of the iteration drops '
               'the entry',
               path=K.describe(path) if path else None,
               construct='pending-start entry dropped')


def _inactive(ctx, rule='C08.1'):
    cell = ctx.index.get_class(K.SCHED, 'Cell')
    func = cell.methods.get('_handle_inactive_servers')
    ctx.require(func is not None, 'Cell._handle_inactive_servers')
    nz = N.Normaliser()
    graph = ctx.cfg(func)
    facts = N.must_facts(graph, nz)
    # state / since come from server.get_state()
    statevar = sincevar = None
    for sub in K.walk_no_nested(func.node):
        if isinstance(sub, ast.Assign) and isinstance(sub.targets[0],
                                                      ast.Tuple) and \
                isinstance(sub.value, ast.Call) and \
                K.is_meth(sub.value, 'get_state') and \
                len(sub.targets[0].elts) == 2:
            statevar = N.txt(sub.targets[0].elts[0])
            sincevar = N.txt(sub.targets[0].elts[1])
            srv = K.recv_text(sub.value)
    ctx.require(statevar, '(state, since) = server.get_state()', rule=rule)
    # the collected list
    removes = K.nodes_calling(graph, lambda c: K.is_meth(c, 'remove') and
                              c.args and N.txt(c.args[0]).endswith('.name')
                              and K.recv_text(c) == srv)
    ctx.require(len(removes) == 1, 'removal in the inactive-server pass',
        rule=rule)
    rnode = removes[0][0]
    rloop = K.enclosing_for(graph, rnode)
    lst = N.txt(rloop.ast.iter) if rloop is not None else None
    ctx.ob(rule, func, rnode, rloop is not None and
           isinstance(rloop.ast.iter, ast.Name),
           'the only removal iterates the collected list %s' % lst,
           construct='removal ranges over the collected list')
    writers = 0
    evars = set()
    by_ast = {}
    for node in graph.nodes:
        if node.kind == 'stmt' and node.ast is not None:
            by_ast[id(node.ast)] = node
    for part in K.list_contributions(func, lst):
        if 'other' in part:
            if isinstance(part['other'], ast.Assign):
                ctx.fail(rule, func, part['other'],
                         'the collected list is built in a way the check '
                         'does not recognise')
            continue
        node = by_ast.get(id(part['node']))
        if node is None:
            continue
        writers += 1
        have = set(facts[node])
        elt = part['elt']
        eltv = N.txt(elt) if elt is not None else None
        # comprehension filters count as guards of the element
        if isinstance(part['node'], ast.Assign) and \
                isinstance(part['node'].value, ast.ListComp):
            for gen in part['node'].value.generators:
                for cond in gen.ifs:
                    form = nz.formula(cond)
                    parts_ = [form] if form[0] == 'atom' else (
                        form[1] if form[0] == 'and' else [])
                    have |= set(p[1] for p in parts_ if p[0] == 'atom')
        down = any(_state_fact(f, statevar, 'down') for f in have)
        frozen = any(_state_fact(f, statevar, 'frozen') for f in have)
        # <deadline local> <= now, whatever the local is called
        expired = [f for f in have if f.key[0] == 'cmp' and
                   f.key[1] in ('<', '<=') and len(f.key[2]) == 2 and
                   dict(f.key[2]).get('time.time()', 0) < 0 and
                   all(c > 0 and t.isidentifier() for t, c in f.key[2]
                       if t != 'time.time()')]
        for f in expired:
            evars.update(t for t, _c in f.key[2] if t != 'time.time()')
        marked = any(f.key[0] == 'truth' and f.key[2] and
                     f.key[1] == '%s.unschedule' % eltv for f in have)
        from_srv = bool(part['domains']) and N.txt(
            part['domains'][-1][1]).startswith('%s.apps' % srv) or \
            bool(part['domains']) and '%s.apps' % srv in K.rtxt(
                func, part['domains'][-1][1])
        if frozen or not down:
            ctx.ob(rule, func, node, frozen and not down,
                   'bulk collection only from a server whose state is '
                   'frozen', construct='%s [state frozen]' % node.text(50))
            ctx.ob(rule, func, node, marked and from_srv,
                   'from a frozen server exactly the instances flagged '
                   'unschedule', construct='%s [unschedule only]' %
                   node.text(50))
        else:
            ctx.ob(rule, func, node, down,
                   'collected only from a server whose state is down',
                   construct='%s [state down]' % node.text(50))
            ctx.ob(rule, func, node, bool(expired),
                   'collected only when expires_at <= now; facts: %s' %
                   sorted(N.show(f) for f in have),
                   construct='%s [expired]' % node.text(50))
    ctx.require(writers >= 2, 'writers of the collected list', rule=rule)
    # expires_at definition
    defs = [n for n in graph.nodes if n.kind == 'stmt' and
            isinstance(n.ast, ast.Assign) and
            N.txt(n.ast.targets[0]) in evars]
    ctx.require(defs, 'definition of the retention deadline', rule=rule)
    for node in defs:
        val = K.rexpr(func, node.ast.value)
        # the definition case by case: a conditional expression is two
        # definitions, each under its side of the test
        cases = [(set(facts[node]), val)]
        if isinstance(val, ast.IfExp):
            cnz = N.Normaliser()
            cases = [
                (set(facts[node]) | set(K._outcome_atoms(cnz, val.test,
                                                         True)), val.body),
                (set(facts[node]) | set(K._outcome_atoms(cnz, val.test,
                                                         False)),
                 val.orelse)]
        for have_c, cval in cases:
            _expiry_case(ctx, rule, func, node, have_c, cval, sincevar)
    return cell, nz


def _expiry_case(ctx, rule, func, node, have, val, sincevar):
    if True:
        if isinstance(val, ast.Constant):
            none = any(f.key[0] == 'is' and f.key[3] and
                       f.key[1].endswith('.data_retention_timeout') and
                       f.key[2] == 'None' for f in have)
            ctx.ob(rule, func, node, val.value == 0 and none,
                   "'no retention' means immediately (0) and only then")
        else:
            lin = N.linear(val)
            ok = set(lin) == {sincevar, [k for k in lin
                                        if k.endswith(
                                            '.data_retention_timeout')][0]
                              if any(k.endswith('.data_retention_timeout')
                                     for k in lin) else '?'} and \
                all(v == 1 for v in lin.values())
            ctx.ob(rule, func, node, ok,
                   'expiry = since + data_retention_timeout: %s' %
                   N.txt(val))


def _placement_guards(ctx, cell, nz):
    loop = PlacementLoop(ctx)
    graph, head, var = loop.graph, loop.head, loop.var
    # victims only from up servers (C08.2)
    scan = None
    for node in loop.body():
        if node.kind == 'for' and node is not head:
            scan = node
    ctx.require(scan is not None, 'victim scan', rule='C08.2')
    victim = sorted(N.for_targets(scan))[0]
    sbody = K.loop_body_nodes(scan)
    removes = [n for n in sbody if any(
        K.is_meth(c, 'remove') and c.args and
        N.txt(c.args[0]) == '%s.name' % victim for c in C.node_calls(n))]
    ctx.require(removes, 'victim removal', rule='C08.2')
    for rnode in removes:
        rcv = [K.recv_text(c) for c in C.node_calls(rnode)
               if K.is_meth(c, 'remove')][0]

        def is_up(edge, rcv=rcv):
            for atom in nz.facts_of_edge(edge):
                if _state_fact(atom, '%s.state' % rcv, 'up'):
                    return True
            return False
        ctx.ob('C08.2', loop.func, rnode,
               K.guarded_by(graph, rnode, is_up, start=scan),
               'no capacity eviction from a server that is not up')
        # the receiver is the victim's own server
        defs = [s for s in K.walk_no_nested(loop.func.node)
                if isinstance(s, ast.Assign) and
                N.txt(s.targets[0]) == rcv]
        ok = len(defs) == 1 and N.txt(defs[0].value) == \
            'servers[%s.server]' % victim
        ctx.ob('C08.2', loop.func, rnode, ok,
               "the server tested is the victim's own server",
               construct='%s = servers[%s.server]' % (rcv, victim))
    # placements dominated by not blacklisted (C08.3)
    count = 0
    for node in loop.body():
        for call in C.node_calls(node):
            if loop.places(call):
                count += 1
                ok = K.guarded_by(graph, node, lambda e: K.truth_edge(
                    nz, e, '%s.blacklisted' % var, False), start=head)
                ctx.ob('C08.3', loop.func, node, ok,
                       'a blacklisted instance is never placed')
    ctx.require(count >= 3, 'placement calls in the loop', rule='C08.3')
    bl = cell.methods.get('_handle_blacklisted_apps')
    ctx.require(bl is not None, 'Cell._handle_blacklisted_apps')
    bgraph = ctx.cfg(bl)
    bfacts = N.must_facts(bgraph, nz)
    brem = K.nodes_calling(bgraph, lambda c: K.is_meth(c, 'remove') and
                           c.args and N.txt(c.args[0]).endswith('.name'))
    ctx.require(brem, 'removal in the blacklist pass', rule='C08.3')
    for node, call in brem:
        v = N.txt(call.args[0])[:-5]
        # conditions on the instance and on anything read through it (the
        # server it is on): none but "blacklisted and placed"
        derived = {v}
        for _round in range(3):
            for sub in K.walk_no_nested(bl.node):
                if isinstance(sub, ast.Assign) and len(sub.targets) == 1 \
                        and isinstance(sub.targets[0], ast.Name) and \
                        N.mentions(sub.value) & derived:
                    derived.add(sub.targets[0].id)
        have = set()
        for name in derived:
            have |= set(N.show(f) for f in facts_about(
                N.raw_only(bfacts[node]), name))
        ok = have == {'%s.blacklisted' % v, '%s.server' % v}
        ctx.ob('C08.3', bl, node, ok,
               'removed exactly when blacklisted and placed (facts: %s)' %
               sorted(have))
        bloop = K.enclosing_for(bgraph, node, v)
        path = K.find_path(node, [bloop, bgraph.exit] if bloop else
                           [bgraph.exit], cut_node=lambda n, v=v: any(
                               K.is_meth(c, 'release_identity') and
                               K.recv_text(c) == v
                               for c in C.node_calls(n)),
                           follow_exc=False)
        ctx.ob('C08.3', bl, node, path is None,
               'its identity is released', construct='release after '
                                                     'blacklist removal')
    return loop


def facts_about(facts, var):
    return [f for f in facts if any(m == var or m.startswith(var + '.')
                                    for m in f.mentions)]


def _ordering(ctx, cell):
    sched = cell.methods.get('schedule')
    graph = ctx.cfg(sched)
    targets = K.nodes_calling(graph, lambda c: K.is_meth(c,
                                                         'schedule_alloc'))
    ctx.require(targets, 'schedule_alloc call', rule='C08.4')
    for name in ('_handle_inactive_servers', '_handle_blacklisted_apps',
                 '_fix_invalid_identities'):
        pre = [n for n, _c in K.nodes_calling(
            graph, lambda c, nm=name: K.is_meth(c, nm))]
        for node, _c in targets:
            ok = bool(pre) and K.guarded_by(graph, node,
                                            lambda e, p=pre: e.src in p)
            ctx.ob('C08.4', sched, node, ok,
                   '%s runs before any partition is scheduled' % name,
                   construct='%s before schedule_alloc' % name)


def _presence(ctx):
    loader = ctx.index.get_class(K.LOADER, 'Loader')
    func = loader.methods.get('adjust_presence')
    ctx.require(func is not None, 'Loader.adjust_presence')
    present = func.params()[1]

    def is_known(expr):
        return N.txt(expr) in ('self.servers', 'self.servers.keys()',
                               'set(self.servers.keys())',
                               'set(self.servers)')

    def is_down(expr):
        """{name of every known server whose state is down}, iterating the
        keys or the items of self.servers."""
        if isinstance(expr, ast.Call) and K.callee_text(expr) == 'set' and \
                len(expr.args) == 1 and isinstance(
                    expr.args[0], (ast.GeneratorExp, ast.ListComp)):
            expr = expr.args[0]
        if not (isinstance(expr, (ast.SetComp, ast.GeneratorExp,
                                  ast.ListComp)) and
                len(expr.generators) == 1 and
                len(expr.generators[0].ifs) == 1):
            return False
        gen = expr.generators[0]
        it = N.txt(gen.iter)
        if it in ('self.servers', 'self.servers.keys()',
                  'six.iterkeys(self.servers)') and \
                isinstance(gen.target, ast.Name):
            keyvar = gen.target.id
            srv = 'self.servers[%s]' % keyvar
        elif it in ('self.servers.items()', 'six.iteritems(self.servers)') \
                and isinstance(gen.target, ast.Tuple) and \
                len(gen.target.elts) == 2:
            keyvar, srv = [N.txt(e) for e in gen.target.elts]
        else:
            return False
        cond = gen.ifs[0]
        if N.txt(expr.elt) != keyvar or not (
                isinstance(cond, ast.Compare) and len(cond.ops) == 1 and
                isinstance(cond.ops[0], (ast.Is, ast.Eq))):
            return False
        sides = [N.txt(cond.left), N.txt(cond.comparators[0])]
        return '%s.state' % srv in sides and any(
            side.endswith('State.down') for side in sides)

    def is_present(expr):
        return N.txt(expr) in (present, 'set(%s)' % present)
    sx = K.SetExpr(func, {'known': is_known, 'down': is_down,
                          'present': is_present},
                   subset=[('down', 'known')])
    graph = ctx.cfg(func)
    loops = [n for n in graph.nodes if n.kind == 'for']
    loops = [n for n in loops if not any(
        n in K.loop_body_nodes(o) for o in loops if o is not n)]
    ctx.require(len(loops) >= 2, 'two handling loops in adjust_presence',
        rule='C08.5')
    went = sx.expect(lambda e: e['known'] and not e['down'] and
                     not e['present'])
    came = sx.expect(lambda e: e['down'] and e['present'])
    seen = {'went': False, 'came': False}
    for head in loops:
        body = K.loop_body_nodes(head)
        table = sx.table(head.ast.iter)
        reloads = any(K.is_meth(c, 'reload_server')
                      for n in body for c in C.node_calls(n))
        what = 'came' if reloads else 'went'
        seen[what] = True
        want = came if reloads else went
        ctx.ob('C08.5', func, head, table == want,
               "'%s' handling ranges over %s (expected %s)" % (
                   'server came up' if reloads else 'server went down',
                   K.show_table(table), K.show_table(want)),
               construct="'%s' handling domain" % what)
        if what == 'went':
            ok = any(K.is_meth(c, 'adjust_server_state')
                     for n in body for c in C.node_calls(n))
            ctx.ob('C08.5', func, head, ok,
                   'a server that went down gets its state adjusted',
                   construct="'went' handling adjusts state")
        else:
            order = [c.func.attr for n in sorted(body, key=lambda n: n.id)
                     for c in C.node_calls(n)
                     if K.recv_text(c) == 'self']
            ok = 'adjust_server_state' in order and \
                order.index('reload_server') < \
                order.index('adjust_server_state')
            ctx.ob('C08.5', func, head, ok,
                   'a server that came up is reloaded, then its state '
                   'adjusted: %s' % order,
                   construct="'came' handling reload then adjust")
            # ... every one of them, whatever it still holds: capacity,
            # partition and traits may have changed while it was away
            for step in ('reload_server', 'adjust_server_state'):
                skip = K.find_path(
                    head, [head], cut_node=lambda n, st=step: any(
                        K.is_meth(c, st) for c in C.node_calls(n)),
                    cut_edge=lambda e, h=head: e.src is h and
                    e.kind == 'done', follow_exc=False)
                ctx.ob('C08.5', func, head, skip is None,
                       'every server that came up goes through %s' % step,
                       path=K.describe(skip) if skip else None,
                       construct="'came' handling always %s" % step)
    ctx.require(all(seen.values()), 'both presence handlers', rule='C08.5')
    # adjust_server_state
    adj = loader.methods.get('adjust_server_state')
    ctx.require(adj is not None, 'Loader.adjust_server_state')
    nz = N.Normaliser()
    graph = ctx.cfg(adj)
    facts = N.must_facts(graph, nz)
    restores = [n for n, c in K.nodes_calling(
        graph, lambda c: K.is_meth(c, 'set_state') and len(c.args) == 2)]
    stores = [n for n in graph.nodes if any(
        N.txt(t).endswith('.state') for t, _v, _k in K.assigns_attr(n))]
    ctx.require(stores, 'presence-based state stores', rule='C08.5')
    pdefs = {}
    for sub in K.walk_no_nested(adj.node):
        if isinstance(sub, ast.Assign) and len(sub.targets) == 1 and \
                isinstance(sub.targets[0], ast.Name):
            pdefs.setdefault(sub.targets[0].id, []).append(N.txt(sub.value))

    def presence(fact):
        """truth of "the presence node exists": the test spelled out or a
        local bound (once) to it, whatever it is called."""
        if fact.key[0] != 'truth':
            return False
        text = fact.key[1]
        if text.isidentifier():
            vals = pdefs.get(text, [])
            text = vals[0] if len(vals) == 1 else ''
        return 'exists(' in text and 'server_presence(' in text
    seen_presence = []
    for node in stores:
        ok = bool(restores) and K.guarded_by(
            graph, node, lambda e: e.src in restores)
        ctx.ob('C08.5', adj, node, ok,
               'the recorded (state, since) is restored on every path '
               'before presence is applied',
               construct='%s after set_state(recorded)' % node.text(50))
        val = [N.txt(v) for t, v, _k in K.assigns_attr(node)][0]
        fs = facts[node]
        if val.endswith('State.down'):
            ok = any(presence(f) and not f.key[2] for f in fs)
            seen_presence.append(ok)
            ctx.ob('C08.5', adj, node, ok, 'no presence => down')
        elif val.endswith('State.up'):
            ok = any(presence(f) and f.key[2] for f in fs) and any(
                         f.key[0] == 'is' and not f.key[3] and
                         'State.frozen' in N.show(f) for f in fs)
            ctx.ob('C08.5', adj, node, ok,
                   'presence and not frozen => up (a frozen server stays '
                   'frozen)')
        else:
            ctx.fail('C08.5', adj, node, 'unexpected state store')
    for node in restores:
        call = [c for c in C.node_calls(node)
                if K.is_meth(c, 'set_state')][0]
        defs = {}
        for sub in K.walk_no_nested(adj.node):
            if isinstance(sub, ast.Assign) and isinstance(sub.targets[0],
                                                          ast.Name):
                defs[sub.targets[0].id] = N.txt(sub.value)
        a0 = defs.get(N.txt(call.args[0]), N.txt(call.args[0]))
        a1 = defs.get(N.txt(call.args[1]), N.txt(call.args[1]))
        if "['state']" not in a0 or "['since']" not in a1:
            # through further copies (a helper's result after inlining)
            a0 = K.rtxt(adj, call.args[0])
            a1 = K.rtxt(adj, call.args[1])
        ok = "['state']" in a0 and "['since']" in a1
        ctx.ob('C08.5', adj, node, ok,
               'restored from the stored record: state <- %s, since <- %s'
               % (a0, a1))
    ctx.ob('C08.5', adj, None, bool(seen_presence) and all(seen_presence),
           'the state is decided by the existence of the presence node',
           construct='is_up definition')


def state_stored(ctx, rule='C08.6'):
    """A requested state is always taken: Node.set_state stores it on every
    path, and the override of Server leaves without calling it only when the
    server already is in that state.  (A state change that is dropped leaves
    a frozen or down server up in the model - shared with C03.1.)"""
    index = ctx.index
    node_cls = index.get_class(K.SCHED, 'Node')
    func = node_cls.methods.get('set_state')
    ctx.require(func is not None, 'Node.set_state')
    graph = ctx.cfg(func)
    st = func.params()[1]
    stores = [n for n in graph.nodes if any(
        N.txt(t) == 'self._state' and N.txt(v) == st
        for t, v, _k in K.assigns_attr(n))]
    skip = K.find_path(graph.entry, [graph.exit],
                       cut_node=lambda n: n in stores, follow_exc=False)
    ctx.ob(rule, func, stores[0] if stores else None,
           bool(stores) and skip is None,
           'Node.set_state stores the requested state on every path',
           path=K.describe(skip) if skip else None,
           construct='requested state stored')
    nz = N.Normaliser()
    for cls in index.module(K.SCHED).classes.values():
        if cls is node_cls or node_cls not in index.mro(cls):
            continue
        over = cls.methods.get('set_state')
        if over is None:
            continue
        ograph = ctx.cfg(over)
        ost = over.params()[1]
        supers = [n for n, c in K.nodes_calling(
            ograph, lambda c: K.is_meth(c, 'set_state') and c.args and
            N.txt(c.args[0]) == ost)]

        def already(edge, ost=ost):
            for atom in nz.facts_of_edge(edge):
                key = atom.key
                if key[0] == 'is' and key[3] and ost in key[1:3] and (
                        'self.state' in key[1:3] or
                        'self._state' in key[1:3]):
                    return True
                if key[0] == 'cmp' and key[1] == '==' and \
                        sorted(t for t, _c in key[2]) in (
                            sorted([ost, 'self.state']),
                            sorted([ost, 'self._state'])):
                    return True
            return False
        skip = K.find_path(ograph.entry, [ograph.exit],
                           cut_node=lambda n: n in supers,
                           cut_edge=already, follow_exc=False)
        ctx.ob(rule, over, supers[0] if supers else None,
               bool(supers) and skip is None,
               '%s.set_state hands the request to Node.set_state unless '
               'the node already is in that state' % cls.name,
               path=K.describe(skip) if skip else None,
               construct='%s.set_state forwards' % cls.name)


def _blacklist_flags(ctx):
    """C08.3: the flag the guards read is the verdict of the whole current
    list: every store of <instance>.blacklisted outside the constructor is
    the result of _is_blacklisted(<its name>), and the handler of a
    blacklist event recomputes the flag of every instance, unconditionally
    (a flag derived from the entries that changed goes wrong when entries
    overlap)."""
    index = ctx.index
    count = 0
    for mod in (index.module(K.SCHED), index.module(K.LOADER),
                index.module(K.MASTER)):
        for func in mod.live_functions():
            for sub in K.walk_no_nested(func.node):
                if not isinstance(sub, ast.Assign):
                    continue
                for tgt in sub.targets:
                    if not (isinstance(tgt, ast.Attribute) and
                            tgt.attr == 'blacklisted'):
                        continue
                    count += 1
                    val = K.rexpr(func, sub.value)
                    init = func.name == '__init__' and isinstance(
                        sub.value, ast.Constant) and sub.value.value is False
                    verdict = isinstance(val, ast.Call) and K.is_meth(
                        val, '_is_blacklisted')
                    ctx.ob('C08.3', func, sub, init or verdict,
                           'the blacklist flag of an instance is the verdict '
                           'of _is_blacklisted on its name (%s)'
                           % N.txt(sub.value),
                           construct='blacklist flag source')
    ctx.require(count >= 2, 'stores of the blacklist flag', rule='C08.3')
    master = index.get_class(K.MASTER, 'Master')
    func = master.methods.get('_handle_apps_blacklist_event')
    ctx.require(func is not None, 'Master._handle_apps_blacklist_event',
                rule='C08.3')
    graph = ctx.cfg(func)
    stores = [n for n in graph.nodes if any(
        N.txt(t).endswith('.blacklisted') for t, _v, _k in K.assigns_attr(n))]
    ctx.require(stores, 'store of the blacklist flag in the event handler',
                rule='C08.3', func=func)
    for node in stores:
        loop = K.enclosing_for(graph, node)
        dom = K.rtxt(func, loop.ast.iter) if loop is not None else ''
        skip = K.find_path(loop, [loop], cut_node=lambda n, nd=node: n is nd,
                           cut_edge=lambda e, lp=loop: e.src is lp and
                           e.kind == 'done', follow_exc=False) \
            if loop is not None else []
        ctx.ob('C08.3', func, node,
               loop is not None and 'self.cell.apps' in dom and skip is None,
               'a blacklist event recomputes the flag of every instance of '
               'the cell (%s)' % dom,
               path=K.describe(skip) if skip else None,
               construct='every flag recomputed')
        if loop is not None:
            K.exhaustive_loop(ctx, 'C08.3', func, loop,
                              'recomputation of the blacklist flags')


def _leaf_ignores_state(ctx):
    """C08.2: a placement kept on a down or frozen server (within the
    retention window, or frozen without the unschedule mark) is put back by
    the restart of the master through Server.restore -> Server.put, so the
    leaf placement must not look at the server state - new placements are
    kept off such servers by the bucket walk and the eviction scan, which
    have their own state tests."""
    server = ctx.index.get_class(K.SCHED, 'Server')
    for name in ('put', 'restore'):
        func = server.methods.get(name)
        ctx.require(func is not None, 'Server.%s' % name, rule='C08.2')
        graph = ctx.cfg(func)
        tests = [n for n in graph.nodes if n.kind == 'test' and
                 n.ast is not None and any(
                     isinstance(leaf, ast.Attribute) and
                     leaf.attr in ('state', '_state')
                     for leaf in ast.walk(K.test_expr(func, n) or n.ast))]
        ctx.ob('C08.2', func, tests[0] if tests else None, not tests,
               'Server.%s admits an instance whatever the state of the '
               'server (a recorded placement on a down or frozen server is '
               'restored through it)' % name if not tests else
               'Server.%s tests the server state (%s): a recorded placement '
               'on a down or frozen server can no longer be restored' % (
                   name, N.txt(tests[0].ast)),
               construct='Server.%s does not test the state' % name)


def _marks_of_this_freeze(ctx):
    """C08.1: a frozen server keeps its instances except those marked by
    the freeze *in force*.  The mark is an attribute of the instance and
    outlives the state it was set under (a thaw, or a frozen -> down -> up
    round trip, does not touch it), so the routine that freezes a server
    first resets the mark of every instance on it and then sets the marks it
    was given: a freeze that names nobody moves nobody."""
    master = ctx.index.get_class(K.MASTER, 'Master')
    func = master.methods.get('_freeze_server')
    ctx.require(func is not None, 'Master._freeze_server', rule='C08.1')
    graph = ctx.cfg(func)
    freezes = [n for n, c in K.nodes_calling(
        graph, lambda c: K.is_meth(c, 'set_state') and c.args and
        'frozen' in N.txt(c.args[0]))]
    ctx.require(freezes, 'set_state(frozen) in _freeze_server',
                rule='C08.1', func=func)
    resets = []
    for loop in [n for n in graph.nodes if n.kind == 'for']:
        it = K.rtxt(func, loop.ast.iter)
        if '.apps' not in it:
            continue
        var = sorted(N.for_targets(loop))[-1]
        body = K.loop_body_nodes(loop)
        stores = [n for n in body if any(
            N.txt(t) == '%s.unschedule' % var and (
                (isinstance(v, ast.Constant) and v.value is False) or
                isinstance(v, ast.Compare))
            for t, v, _k in K.assigns_attr(n))]
        if not stores:
            continue
        skip = None
        for start in [e.dst for e in loop.succ if e.kind == 'iter']:
            if start in stores:
                continue
            skip = skip or K.find_path(start, [loop],
                                       cut_node=lambda n: n in stores,
                                       follow_exc=False)
        if skip is None:
            resets.append(loop)
    for node in freezes:
        ok = bool(resets) and K.guarded_by(
            graph, node, lambda e: e.src in resets and e.kind == 'done')
        ctx.ob('C08.1', func, node, ok,
               'before a server is frozen the unschedule mark of every '
               'instance on it is reset (the marks in force are those of '
               'this freeze)',
               construct='marks of earlier freezes reset')


def _marks_withdrawn(ctx):
    """C08.6: what the leaf removal marks, the leaf placement un-marks.

    Server.remove leaves per-instance marks behind (today: evicted = True);
    readers outside the cycle act on them (the master terminates an instance
    that is schedule-once and evicted).  An instance can be put back without
    passing the one place of the placement loop that resets the mark by hand
    - the reload of a modified server record takes everything off the old
    object and restores it on the new one - so either every successful path
    of the leaf placement stores the constructor's value back, or every
    reader outside the scheduler module also requires 'not placed'.
    Otherwise an instance that sits on a frozen (or up) server, marked by
    nobody, is terminated by the next cycle."""
    from . import c01
    _nz, _server, _node, put, remove, _pred = c01._roles(ctx)
    app_cls = ctx.index.get_class(K.SCHED, 'Application')
    init = app_cls.methods.get('__init__')
    ctx.require(init is not None, 'Application.__init__', rule='C08.6')
    initial = {}
    for sub in K.walk_no_nested(init.node):
        if isinstance(sub, ast.Assign) and isinstance(sub.value,
                                                      ast.Constant):
            for tgt in sub.targets:
                if isinstance(tgt, ast.Attribute) and \
                        N.txt(tgt.value) == 'self':
                    initial[tgt.attr] = sub.value.value
    rgraph = ctx.cfg(remove)
    marks = {}
    for node in rgraph.nodes:
        for tgt, val, kind in K.assigns_attr(node):
            if kind != 'assign' or N.txt(tgt.value) == 'self':
                continue
            if isinstance(val, ast.Constant) and tgt.attr in initial and \
                    val.value != initial[tgt.attr] and \
                    isinstance(val.value, bool):
                marks[tgt.attr] = (initial[tgt.attr], node)
    ctx.note('C08.6 marks left by %s: %s' % (remove.qualname,
                                             sorted(marks) or 'none'))
    if not marks:
        ctx.ok('C08.6', remove, None,
               'the leaf removal leaves no boolean mark on the instance '
               'that differs from the constructor value',
               construct='marks of the leaf removal', nontrivial=False)
        return
    pgraph = ctx.cfg(put)
    appvar = put.params()[1]
    wins = [n for n in pgraph.nodes if n.kind == 'return' and
            isinstance(n.ast.value, ast.Constant) and n.ast.value.value]
    ctx.require(wins, 'successful return of %s' % put.qualname,
                rule='C08.6', func=put)
    for attr, (value, _where) in sorted(marks.items()):
        resets = [n for n in pgraph.nodes if any(
            kind == 'assign' and tgt.attr == attr and
            N.txt(tgt.value) == appvar and isinstance(val, ast.Constant) and
            val.value == value for tgt, val, kind in K.assigns_attr(n))]
        leak = None
        for ret in wins:
            leak = leak or K.find_path(pgraph.entry, [ret],
                                       cut_node=lambda n: n in resets,
                                       follow_exc=False)
        # the other accepted design: every reader outside the scheduler
        # module asks for 'not placed' in the same test
        readers = []
        unguarded = []
        for modname in (K.MASTER, K.LOADER):
            mod = ctx.index.module(modname)
            for func in mod.all_functions():
                for sub in K.walk_no_nested(func.node):
                    test = getattr(sub, 'test', None)
                    if test is None or not isinstance(
                            sub, (ast.If, ast.While, ast.IfExp)):
                        continue
                    hit = [a for a in ast.walk(test) if isinstance(
                        a, ast.Attribute) and a.attr == attr and
                           isinstance(a.ctx, ast.Load)]
                    if not hit:
                        continue
                    readers.append((func, sub))
                    owner = N.txt(hit[0].value)
                    conj = test.values if isinstance(
                        test, ast.BoolOp) and isinstance(
                            test.op, ast.And) else [test]
                    texts = [N.txt(c) for c in conj]
                    if not ('not %s.server' % owner in texts or
                            '%s.server is None' % owner in texts):
                        unguarded.append((func, sub))
        ok = leak is None or (readers and not unguarded)
        ctx.ob('C08.6', put, None, ok,
               'the mark %r left by %s is withdrawn on every successful '
               'path of the leaf placement (or every reader outside the '
               'scheduler also requires "not placed")' % (
                   attr, remove.qualname) if ok else
               'an instance put back on a server keeps the mark %r left by '
               '%s: a successful path of %s does not store %r, and %s acts '
               'on the mark without asking whether the instance is placed'
               % (attr, remove.qualname, put.qualname, value,
                  ', '.join(sorted(set(f.qualname for f, _s in unguarded)))
                  or 'a reader'),
               path=K.describe(leak) if leak and not ok else None,
               construct='mark %s withdrawn by the leaf placement' % attr)


def _state_record(ctx):
    """C08.6: the stored record of a server's state - what a new master and
    a reload restart the retention clock from - is the model's own pair:
    it is written by one routine, with the state and the since that
    ``get_state()`` returns (a time taken when the record is written moves
    "down since" forward every time an unchanged state is recorded again),
    and nobody else writes or clears that node."""
    index = ctx.index
    master = index.get_class(K.MASTER, 'Master')
    writers = []
    for mod in (index.module(K.MASTER), index.module(K.LOADER)):
        for func in mod.live_functions():
            for call in K.calls(func.node):
                if K.is_meth(call, 'put', 'update', 'delete',
                             'ensure_deleted') and \
                        (K.recv_text(call) or '').endswith('backend') and \
                        call.args:
                    arg = K.rexpr(func, call.args[0])
                    if isinstance(arg, ast.Call) and N.txt(
                            arg.func).endswith('path.placement') and \
                            len(arg.args) == 1:
                        writers.append((func, call))
    ctx.require(writers, 'writer of the server state record', rule='C08.6')
    recorders = set(f.qualname for f, c in writers if c.func.attr == 'put'
                    and len(c.args) > 1 and isinstance(
                        K.rexpr(f, c.args[1]), ast.Dict))
    for func, call in writers:
        ok = func.qualname in recorders and len(recorders) == 1 and \
            call.func.attr == 'put'
        if call.func.attr in ('delete', 'ensure_deleted') and \
                func.name in ('remove_server', 'delete_server'):
            continue        # the node of a deleted server goes with it
        ctx.ob('C08.6', func, call, ok,
               'the state record of a server is written by the state '
               'recorder only (%s)' % sorted(recorders),
               construct='writer of the server state record')
        if not ok:
            continue
        payload = K.rexpr(func, call.args[1])
        vals = dict((k.value, v) for k, v in zip(payload.keys,
                                                  payload.values)
                    if isinstance(k, ast.Constant))
        pair = [st for st in K.walk_no_nested(func.node)
                if isinstance(st, ast.Assign) and isinstance(
                    st.value, ast.Call) and K.is_meth(st.value, 'get_state')
                and isinstance(st.targets[0], ast.Tuple) and
                len(st.targets[0].elts) == 2]
        okp = False
        if pair and 'since' in vals and 'state' in vals:
            st_name = N.txt(pair[0].targets[0].elts[0])
            si_name = N.txt(pair[0].targets[0].elts[1])
            okp = N.txt(vals['since']) == si_name and \
                st_name in N.mentions(vals['state'])
        elif 'since' in vals and 'state' in vals:
            okp = 'get_state()[1]' in K.rtxt(func, vals['since']) and \
                'get_state()[0]' in K.rtxt(func, vals['state'])
        ctx.ob('C08.6', func, call, okp,
               "the record carries the model's (state, since) pair as "
               'get_state() returns it (since: %s)' % (
                   N.txt(vals['since']) if 'since' in vals else 'missing'),
               construct='state record payload')


def _bookkeeping(ctx):
    state_stored(ctx)
    _state_record(ctx)
    _leaf_ignores_state(ctx)
    _blacklist_flags(ctx)
    index = ctx.index
    nz = N.Normaliser()
    node_cls = index.get_class(K.SCHED, 'Node')
    func = node_cls.methods.get('set_state')
    ctx.require(func is not None, 'Node.set_state')
    graph = ctx.cfg(func)
    facts = N.must_facts(graph, nz)
    st, si = func.params()[1], func.params()[2]
    for node in graph.nodes:
        for tgt, val, _k in K.assigns_attr(node):
            if N.txt(tgt) == 'self._state_since':
                def changed(f):
                    # exactly "the stored state is not the requested one"
                    if f.key[0] == 'is' and not f.key[3]:
                        return sorted(f.key[1:3]) == sorted(
                            ['self._state', st])
                    if f.key[0] == 'cmp' and f.key[1] == '!=':
                        return sorted(t for t, _c in f.key[2]) == sorted(
                            ['self._state', st])
                    return False
                ok = any(changed(f) for f in facts[node]) and \
                    N.txt(val) == si
                ctx.ob('C08.6', func, node, ok,
                       'since is reset only when the state changes')
            if N.txt(tgt) == 'self._state':
                ctx.ob('C08.6', func, node, N.txt(val) == st,
                       'state takes the requested value')
    # ... and on every change: down since / frozen since are the times the
    # retention clock and the record of the server start from
    nzs = N.Normaliser()
    since_stores = [n for n in graph.nodes if any(
        N.txt(t) == 'self._state_since' for t, _v, _k in K.assigns_attr(n))]

    def unchanged(edge):
        for a in nzs.facts_of_edge(edge):
            if a.key[0] == 'is' and a.key[3] and sorted(a.key[1:3]) == \
                    sorted(['self._state', st]):
                return True
            if a.key[0] == 'cmp' and a.key[1] == '==' and sorted(
                    t for t, _c in a.key[2]) == sorted(['self._state', st]):
                return True
        return False
    skip = K.find_path(graph.entry, [graph.exit],
                       cut_node=lambda n: n in since_stores,
                       cut_edge=unchanged, follow_exc=False)
    ctx.ob('C08.6', func, since_stores[0] if since_stores else None,
           bool(since_stores) and skip is None,
           'every change of the state takes the new since (down since and '
           'frozen since are different times)',
           path=K.describe(skip) if skip else None,
           construct='since follows every state change')
    # OWNER: the (state, since) pair is written by Node.set_state alone
    # (and the constructor) - an override or a helper that stores `since`
    # on its own restarts the retention clock without a state change
    for cls in index.module(K.SCHED).classes.values():
        for meth in cls.live_methods():
            if meth is func or meth.name == '__init__':
                continue
            for sub in K.walk_no_nested(meth.node):
                tgts = []
                if isinstance(sub, ast.Assign):
                    tgts = sub.targets
                elif isinstance(sub, (ast.AugAssign, ast.AnnAssign)):
                    tgts = [sub.target]
                for tgt in tgts:
                    for leaf in ast.walk(tgt):
                        if isinstance(leaf, ast.Attribute) and \
                                leaf.attr in ('_state', '_state_since') and \
                                isinstance(leaf.ctx, ast.Store):
                            ctx.fail('C08.6', meth, sub,
                                     '%s is stored outside Node.set_state: '
                                     'the recorded `since` no longer means '
                                     '"since the last state change"' %
                                     leaf.attr,
                                     construct='%s owner' % leaf.attr)
    ctx.ob('C08.6', func, None, True,
           '_state / _state_since are stored by Node.set_state (and '
           'constructors) only', construct='state pair owner')
    master = index.get_class(K.MASTER, 'Master')
    _pending_start(ctx, master, nz)
    fr = master.methods.get('_freeze_server')
    ctx.require(fr is not None, 'Master._freeze_server')
    graph = ctx.cfg(fr)
    # (a mark is a store of anything but the constant False: resets of the
    # marks of an earlier freeze are judged by C08.1)
    marks = [n for n in graph.nodes if any(
        N.txt(t).endswith('.unschedule') and not (
            isinstance(v, ast.Constant) and v.value is False)
        for t, v, _k in K.assigns_attr(n))]
    ctx.require(marks, 'unschedule mark in _freeze_server', rule='C08.6')
    for node in marks:
        v = [N.txt(t.value) for t, _v, _k in K.assigns_attr(node)][0]
        defs = [s for s in K.walk_no_nested(fr.node)
                if isinstance(s, ast.Assign) and N.txt(s.targets[0]) == v]
        # looked up among the instances of the server named by the request
        # (self.servers.get(<first parameter>)), whatever the locals are
        # called
        want = 'self.servers.get(%s).apps.get(' % fr.params()[1]
        alt = 'self.servers[%s].apps.get(' % fr.params()[1]
        ok = len(defs) == 1 and K.rtxt(fr, defs[0].value).startswith(
            (want, alt)) and K.guarded_by(
                graph, node, lambda e, v=v: K.truth_edge(nz, e, v, True))
        ctx.ob('C08.6', fr, node, ok,
               'only instances found on that server are marked')
    # the mark is consumed with the placement it was set for: whatever
    # un-places an instance also clears its mark, so a later freeze of
    # another server does not act on a stale request
    unplacing = 0
    for cls in index.module(K.SCHED).classes.values():
        for func in cls.live_methods():
            ugraph = None
            for sub in K.walk_no_nested(func.node):
                if not (isinstance(sub, ast.Assign) and
                        isinstance(sub.value, ast.Constant) and
                        sub.value.value is None and any(
                            isinstance(t, ast.Attribute) and
                            t.attr == 'server' and
                            isinstance(t.value, ast.Name) and
                            t.value.id != 'self' for t in sub.targets)):
                    continue
                ugraph = ugraph or ctx.cfg(func)
                site = [n for n in ugraph.nodes if n.ast is sub]
                if not site:
                    continue
                unplacing += 1
                v = [t.value.id for t in sub.targets
                     if isinstance(t, ast.Attribute)][0]

                def clears(node, v=v):
                    return any(
                        N.txt(t) == '%s.unschedule' % v and
                        isinstance(val, ast.Constant) and
                        val.value is False
                        for t, val, _k in K.assigns_attr(node))
                before = K.guarded_by(ugraph, site[0],
                                      lambda e: clears(e.src) and
                                      e.kind != 'exc')
                after = K.find_path(site[0], [ugraph.exit],
                                    cut_node=clears, follow_exc=False)
                ctx.ob('C08.6', func, site[0], before or after is None,
                       'un-placing an instance clears its unschedule mark '
                       'on every path (%s.unschedule = False)' % v,
                       path=K.describe(after) if after and not before
                       else None,
                       construct='mark consumed with ' + site[0].text(30))
    ctx.require(unplacing >= 1, 'un-placement (<v>.server = None) in the '
                                'scheduler', rule='C08.6')
    sets = K.nodes_calling(graph, lambda c: K.is_meth(c, 'set_state'))
    ok = bool(sets) and all('State.frozen' in N.txt(c.args[0])
                            for _n, c in sets)
    ctx.ob('C08.6', fr, sets[0][0] if sets else None, ok,
           'the server state becomes frozen')


def _blacklist_match(ctx):
    """C08.3: the verdict on a name looks at every entry of the list: an
    iteration of the loop over the blacklist ends without a verdict only
    after the entry was matched against the name as a pattern (fnmatch) and
    did not match.  A prefilter on part of the entry ("entries of another
    proid") passes over entries whose proid part is itself a pattern."""
    loader = ctx.index.get_class(K.LOADER, 'Loader')
    cands = [f for f in loader.live_methods() if any(
        K.callee_text(c).endswith('fnmatch.fnmatch') or
        K.callee_text(c).endswith('fnmatch.fnmatchcase') or
        K.is_meth(c, 'match') for c in K.calls(f.node)) and any(
            isinstance(n, ast.Attribute) and n.attr == 'apps_blacklist'
            for n in K.walk_no_nested(f.node))]
    func = K.one(cands, 'Loader routine matching a name against '
                        'apps_blacklist')
    graph = ctx.cfg(func)
    loops = [n for n in graph.nodes if n.kind == 'for' and
             'apps_blacklist' in K.rtxt(func, n.ast.iter)]
    ctx.require(loops, 'loop over the blacklist in %s' % func.qualname,
                rule='C08.3', func=func)
    for loop in loops:
        var = sorted(N.for_targets(loop))[-1]
        matches = [n for n in K.loop_body_nodes(loop) if any(
            (K.callee_text(c).endswith('fnmatch.fnmatch') or
             K.callee_text(c).endswith('fnmatch.fnmatchcase')) and
            len(c.args) == 2 and var in N.mentions(c.args[1])
            for c in C.node_calls(n))]
        starts = [e.dst for e in loop.succ if e.kind == 'iter']
        path = None
        for start in starts:
            if start in matches:
                continue
            path = K.find_path(start, [loop], cut_node=lambda n: n in matches,
                               follow_exc=False)
            if path:
                break
        ctx.ob('C08.3', func, matches[0] if matches else loop,
               bool(matches) and path is None,
               'every entry of the blacklist is matched against the name as '
               'a pattern before the next one is looked at (no prefilter)',
               path=K.describe(path) if path else None,
               construct='every blacklist entry matched')
        # the loop is not left early without a positive verdict
        early = [n for n in K.loop_body_nodes(loop)
                 if (n.kind == 'stmt' and isinstance(n.ast, ast.Break)) or
                 (n.kind == 'return' and not (
                     isinstance(n.ast.value, ast.Constant) and
                     n.ast.value.value is True))]
        ctx.ob('C08.3', func, early[0] if early else loop, not early,
               'the walk over the blacklist is left early only with the '
               'verdict "blacklisted"', construct='blacklist walk complete')


def check(ctx):
    cell, nz = _inactive(ctx)
    _marks_of_this_freeze(ctx)
    _marks_withdrawn(ctx)
    _blacklist_match(ctx)
    _placement_guards(ctx, cell, nz)
    _ordering(ctx, cell)
    _presence(ctx)
    _bookkeeping(ctx)
    # shared with C09.4: a server that is replaced while it is down or frozen
    # gets the placements recorded under it back (decided on what it held
    # before it was removed) - they are kept, not re-scheduled
    from . import c09
    with ctx.shared({'C09': 'C08.5'}):
        c09._reload(ctx)
    # shared with C11.1: the blacklist is known before the instances are
    # loaded (a master that starts with the other order places what is
    # blacklisted)
    from . import c11
    loader = ctx.index.get_class(K.LOADER, 'Loader')
    c11._load_order(ctx, loader, rule='C08.3', only=[
        ('load_apps_blacklist', 'load_apps')])
    # shared with C11.2: at a reload the placement recorded on a server that
    # is down (no presence) goes through the normal leaf placement - which
    # does not look at the state - and is given up without that attempt only
    # for a schedule-once instance: an instance on a down server keeps its
    # placement for its data retention time across a master restart
    with ctx.shared({'C11': 'C08.2'}):
        c11._verbatim(ctx, loader)


_S = 'lib/python/treadmill/scheduler/__init__.py'
_L = 'lib/python/treadmill/scheduler/loader.py'
_M = 'lib/python/treadmill/scheduler/master.py'

MUTANTS = [
    ('revert-F25-placed-again-still-evicted', [(_S, """        # The app has a placement again: it is no longer evicted.
        app.evicted = False
""", "")], 'C08.6'),
    ('placed-again-evicted-reset-only-without-parent', [(_S, """        # The app has a placement again: it is no longer evicted.
        app.evicted = False
        if self.parent:
""", """        if self.parent:
            app.evicted = False
""")], 'C08.6'),
    ('revert-F24-marks-of-earlier-freezes-kept', [(_M, """        for app in server.apps.values():
            app.unschedule = False

""", "")], 'C08.1'),
    ('retention-ignored', [(_S, """                    if expires_at <= time.time():
                        _LOGGER.debug('Expired placement: %s', name)
""", """                    if expires_at <= time.time() or app.priority == 0:
                        _LOGGER.debug('Expired placement: %s', name)
""")], 'C08.1'),
    ('retention-reversed', [(_S, """                    if expires_at <= time.time():
""", """                    if expires_at >= time.time():
""")], 'C08.1'),
    ('retention-from-now', [(_S, """                        expires_at = since + app.data_retention_timeout
""", """                        expires_at = time.time() + app.data_retention_timeout
""")], 'C08.1'),
    ('frozen-branch-becomes-else', [(_S, """            elif state == State.frozen:
                _LOGGER.debug('Server state is frozen: %s', server.name)
""", """            else:
                _LOGGER.debug('Server state is frozen: %s', server.name)
""")], 'C08.1'),
    ('frozen-moves-everything', [(_S, """                to_be_moved = [app for app in server.apps.values()
                               if app.unschedule]
""", """                to_be_moved = [app for app in server.apps.values()]
""")], 'C08.1'),
    ('down-ignores-state', [(_S, """            if state == State.down:
                _LOGGER.debug('Server state is down: %s', server.name)
""", """            if state != State.up:
                _LOGGER.debug('Server state is down: %s', server.name)
""")], 'C08.1'),
    ('evict-from-frozen', [(_S, """                    if evicted_app_server.state is not State.up:
                        continue
""", """                    if evicted_app_server.state is State.down:
                        continue
""")], 'C08.2'),
    ('evict-from-any', [(_S, """                    # Do not consider servers that are not up.
                    if evicted_app_server.state is not State.up:
                        continue

""", "")], 'C08.2'),
    ('blacklisted-still-placed', [(_S, """            if app.blacklisted:
                _LOGGER.info('App %s is blacklisted', app.name)
                app.release_identity()
                continue
""", """            if app.blacklisted and app.server:
                _LOGGER.info('App %s is blacklisted', app.name)
                app.release_identity()
                continue
""")], 'C08.3'),
    ('blacklist-pass-removes-more', [(_S, """            if app.blacklisted and app.server:
                server = servers[app.server]
""", """            if app.server and (app.blacklisted or app.priority == 0):
                server = servers[app.server]
""")], 'C08.3'),
    ('blacklist-after-placement', [(_S, """        self._handle_blacklisted_apps(queue, servers)
        self._fix_invalid_identities(queue, servers)

        for label""", """        self._fix_invalid_identities(queue, servers)

        for label"""), (_S, """        after = [(app.server, app.placement_expiry)
                 for app in all_apps]
""", """        self._handle_blacklisted_apps(queue, servers)
        after = [(app.server, app.placement_expiry)
                 for app in all_apps]
""")], 'C08.4'),
    ('went-down-includes-down', [(_L, """        for servername in up_servers - servers:
""", """        for servername in set(self.servers.keys()) - servers:
""")], 'C08.5'),
    ('came-up-all-present', [(_L, """        for servername in down_servers & servers:
""", """        for servername in down_servers | servers:
""")], 'C08.5'),
    ('recorded-state-only-frozen', [(_L, """        since = placement_data['since']
        server.set_state(state, since)
""", """        since = placement_data['since']
        if state is scheduler.State.frozen:
            server.set_state(state, since)
""")], 'C08.5'),
    ('frozen-thawed-by-presence', [(_L, """            if server.state is not scheduler.State.frozen:
                server.state = scheduler.State.up
""", """            server.state = scheduler.State.up
""")], 'C08.5'),
    ('since-always-reset', [(_S, """        if self._state is not state:
            self._state_since = since
""", """        self._state_since = since
""")], 'C08.6'),
    ('freeze-marks-anywhere', [(_M, """            app = server.apps.get(appname)
            if not app:""", """            app = self.cell.apps.get(appname)
            if not app:""")], 'C08.6'),
]

REFACTORS = [
    ('retention-swapped', [(_S, """                    if expires_at <= time.time():
""", """                    if time.time() >= expires_at:
""")]),
    ('state-is', [(_S, """            if state == State.down:
                _LOGGER.debug('Server state is down: %s', server.name)
""", """            if state is State.down:
                _LOGGER.debug('Server state is down: %s', server.name)
""")]),
    ('presence-difference-method', [(_L, """        for servername in up_servers - servers:
""", """        for servername in up_servers.difference(servers):
""")]),
    ('presence-inline', [(_L, """        for servername in down_servers & servers:
""", """        for servername in servers & down_servers:
""")]),
    ('since-neq', [(_S, """        if self._state is not state:
            self._state_since = since
""", """        if self._state != state:
            self._state_since = since
""")]),
]
