"""C11 - a restarted master reloads exactly the placement that was
published (structural clauses)."""

import ast

from .. import cfg as C
from .. import norm as N
from . import common as K
from . import master_model as M

EXPLANATION = """
C11.1 load order: for every pair (earlier step, later step, attribute) of the
precedence table the earlier load_* routine writes the attribute, the later
one reads it, and load_model calls them in that order (traits before servers
/ allocations / apps, partitions before servers / allocations, buckets before
cell / servers, allocations before apps, blacklist before apps, servers /
apps / identity groups before restore).  C11.2 the verbatim branch:
Server.restore(app, <recorded expiry>) is used exactly under 'presence exists
and presence ctime <= placement ctime' with no further condition; otherwise
schedule-once instances are not restored and the others go through the
normal leaf placement.  C11.3 the keys read (expires, identity) are keys the
publisher writes.  C11.4 a recorded identity is forced exactly for restored
instances, when restore_identity is set and an identity was recorded; a
failed restore deletes the record.  C11.5 nothing that is not recorded is
placed: the only placement calls reachable from load_model are in
restore_placement, which ranges over the stored listing of that server.
Added by the seeding rounds - C11.1 every listed server / app is loaded (no
filter on the listing); C11.2 the verbatim branch calls Server.restore(app,
expires) under presence <= placement with both stamps converted from
milliseconds without truncation, the stamp locals being identified by what
they are read from; C11.4 force_set_identity takes the recorded identity
unconditionally. Fourth round: C11.5 the stored listing is not modified while
restore_placement walks it.
Sweep: C11.4 every way an iteration of the restore walk can end is: restore result true, record deleted, or the not-found handler of the record read; C11.5 the walk is never cut short.
Fifth round: C11.1 a bucket whose record names a parent is attached to it on every path, and a server carries the partition its record names (another value only when the record names none).
Sixth round: C11.1 a partition is registered under the label it carries; C11.2 the source of a time stamp is found by reaching definitions (the read may sit in a helper or a try block of its own).
Seventh round: C11.2 Server.put / Server.restore do not test the server state themselves (the walk above them does), so a recorded placement on a server that is down at reload time is restored as recorded.
Eighth round: C11.1 load_servers runs before load_allocations and load_apps (servers register trait codes that required traits are encoded with); C11.2 a recorded placement is given up without trying the normal placement only for a schedule-once instance.
Ninth round: C11.2 the verbatim restore ignores the lease completely (shared with C01.6), and the presence stamp of a server is not rebound inside the walk over its records.
Does NOT decide fidelity for all reachable stored states.
"""

ASSUMPTIONS = [
    'ZooKeeper ctime of the presence node changes when a server restarts',
]

MIN_OBLIGATIONS = 18
MIN_PER_RULE = {'C11.1': 10, 'C11.2': 3, 'C11.3': 1, 'C11.4': 3, 'C11.5': 2}

# (earlier, later, attribute of Loader / cell written by earlier and read
# by later) - each row is re-derived from the code below
_PRECEDENCE = [
    ('load_traits', 'load_servers', 'trait_codes'),
    ('load_traits', 'load_allocations', 'trait_codes'),
    ('load_traits', 'load_apps', 'trait_codes'),
    # servers register traits the trait list does not name: what encodes
    # required traits afterwards must see those codes (an unknown required
    # trait is the unsatisfiable bit, and a recorded placement is refused)
    ('load_servers', 'load_allocations', 'trait_codes'),
    ('load_servers', 'load_apps', 'trait_codes'),
    ('load_partitions', 'load_servers', 'partitions'),
    ('load_partitions', 'load_allocations', 'partitions'),
    ('load_buckets', 'load_cell', 'buckets'),
    ('load_buckets', 'load_servers', 'buckets'),
    ('load_allocations', 'load_apps', 'assignments'),
    ('load_apps_blacklist', 'load_apps', 'apps_blacklist'),
    ('load_servers', 'restore_placements', 'servers'),
    ('load_apps', 'restore_placements', 'apps'),
    ('load_identity_groups', 'restore_placements',
     'identity_groups:force_set_identity'),
]


def _closure(index, cls, func, seen=None):
    """func plus the methods of cls it (transitively) calls on self."""
    seen = seen if seen is not None else {}
    if func.qualname in seen:
        return seen
    seen[func.qualname] = func
    for sub in K.walk_no_nested(func.node):
        if isinstance(sub, ast.Call) and K.recv_text(sub) in ('self',
                                                              'self.cell'):
            target = None
            if K.recv_text(sub) == 'self':
                target = index.find_method(cls, sub.func.attr)
            else:
                cell = index.get_class(K.SCHED, 'Cell')
                target = index.find_method(cell, sub.func.attr)
            if target is not None:
                _closure(index, target.cls, target, seen)
    return seen


def _touches(funcs, attr, write):
    for func in funcs.values():
        for sub in K.walk_no_nested(func.node):
            if isinstance(sub, ast.Attribute) and sub.attr == attr:
                if write and isinstance(sub.ctx, (ast.Store, ast.Del)):
                    return True
                if not write and isinstance(sub.ctx, ast.Load):
                    return True
            if write and isinstance(sub, ast.Subscript) and \
                    isinstance(sub.ctx, (ast.Store, ast.Del)) and \
                    isinstance(sub.value, ast.Attribute) and \
                    sub.value.attr == attr:
                return True
            if write and isinstance(sub, ast.Call) and isinstance(
                    sub.func, ast.Attribute) and sub.func.attr in (
                        'append', 'add', 'update', 'add_node', 'add_app',
                        'configure_identity_group') and \
                    attr in N.txt(sub.func.value):
                return True
            if write and isinstance(sub, ast.Call) and K.is_meth(
                    sub, 'add_app') and attr == 'apps':
                return True
            if write and isinstance(sub, ast.Call) and K.is_meth(
                    sub, 'configure_identity_group', 'adjust') and \
                    attr == 'identity_groups':
                return True
    return False


def _load_order(ctx, loader, only=None, rule='C11.1'):
    index = ctx.index
    lm = loader.methods.get('load_model')
    ctx.require(lm is not None, 'Loader.load_model')
    calls = [s for s in K.walk_no_nested(lm.node)
             if isinstance(s, ast.Call) and K.recv_text(s) == 'self']
    # statement order of the (normalised) routine: the walk is pre-order,
    # so steps moved into private helpers appear where they are called
    order = [s.func.attr for s in calls]
    graph = ctx.cfg(lm)
    straight = not [n for n in graph.nodes if n.kind in ('test', 'for',
                                                         'loop_head')]
    ctx.ob(rule, lm, None, straight,
           'load_model is a straight sequence of load steps',
           construct='load_model shape')
    for early, late, attr in _PRECEDENCE:
        if only is not None and (early, late) not in only:
            continue
        fe = index.find_method(loader, early)
        fl = index.find_method(loader, late)
        if fe is None or fl is None or early not in order or \
                late not in order:
            ctx.fail(rule, lm, None,
                     'load step %s or %s vanished from load_model' % (
                         early, late),
                     construct='%s before %s' % (early, late))
            continue
        wattr, _, rattr = attr.partition(':')
        rattr = rattr or wattr
        writes = _touches(_closure(index, loader, fe), wattr, True)
        reads = _touches(_closure(index, loader, fl), rattr, False)
        ctx.require(writes and reads,
                    'dependency %s -> %s through %s (writes=%s reads=%s)' % (
                        early, late, attr, writes, reads), rule=rule)
        ok = order.index(early) < order.index(late)
        ctx.ob(rule, lm, None, ok,
               '%s (writes %s) runs before %s (reads %s)' % (
                   early, attr, late, attr),
               construct='%s before %s' % (early, late))


def _roles(func):
    """Locals of restore_placement by what they are bound to, not by their
    spelling: the listing of recorded instances, the stored record of one
    instance, the recorded identity, the result of the placement."""
    defs = M.local_defs(func)
    listing, records, results = set(), set(), set()
    for sub in K.walk_no_nested(func.node):
        if not isinstance(sub, ast.Assign) or len(sub.targets) != 1:
            continue
        tgt, val = sub.targets[0], sub.value
        if isinstance(tgt, ast.Name) and isinstance(val, ast.Call):
            if K.is_meth(val, 'get_placed_apps'):
                listing.add(tgt.id)
            if K.is_meth(val, 'restore', 'put') and \
                    not (K.recv_text(val) or '').endswith('backend'):
                results.add(tgt.id)
        if isinstance(tgt, ast.Tuple) and len(tgt.elts) == 2 and \
                isinstance(val, ast.Call) and \
                K.is_meth(val, 'get_with_metadata') and val.args and \
                M.is_record_path(val.args[0], defs) is not None:
            records.add(N.txt(tgt.elts[0]))
    identities = set(
        name for name, vals in defs.items() for v in vals
        if isinstance(v, ast.Call) and K.is_meth(v, 'get') and
        K.recv_text(v) in records and v.args and
        isinstance(v.args[0], ast.Constant) and
        v.args[0].value == 'identity')
    return {'listing': listing or {'placed_apps'},
            'record': records or {'data'},
            'identity': identities or {'identity'},
            'result': results or {'restored'}}


def _verbatim(ctx, loader):
    func = loader.methods.get('restore_placement')
    ctx.require(func is not None, 'Loader.restore_placement')
    nz = N.Normaliser()
    graph = ctx.cfg(func)
    facts = N.must_facts(graph, nz)
    defs = M.local_defs(func)
    roles = _roles(func)
    restores = K.nodes_calling(graph, lambda c: K.is_meth(c, 'restore') and
                               len(c.args) == 2)
    if not restores:
        # the scheduler still offers the verbatim restore (anchor present)
        # but the loader no longer uses it: every recorded placement is
        # re-evaluated (constraints, lease) on a restart
        server = ctx.index.get_class(K.SCHED, 'Server')
        ctx.require(server is not None and 'restore' in server.methods,
                    'verbatim restore call', rule='C11.2')
        ctx.fail('C11.2', func, None,
                 'restore_placement never calls Server.restore(app, expires):'
                 ' a placement recorded before the server came up is not '
                 'taken verbatim',
                 construct='verbatim restore')
        return
    loop = None
    for node, call in restores:
        loop = K.enclosing_for(graph, node)
        mine = N.raw_only(facts[node])
        every = list(facts[node])
        # the two time stamps compared, whatever the locals are called: both
        # are read from a node's creation time (which node is judged below)
        pname, tname = M.stamp_names(func, every)
        names = set([pname, tname])
        le = [f for f in every if f.key[0] == 'cmp' and
              f.key[1] in ('<=', '<') and sorted(
                  t for t, _c in f.key[2]) == sorted(names) and
              dict(f.key[2])[pname] > 0]
        tr = [f for f in every if f.key[0] == 'truth' and f.key[2] and
              f.key[1] == pname or f.key[0] == 'is' and
              not f.key[3] and f.key[1] == pname]
        def benign(f):
            return f in le or f in tr or \
                (f.key[0] == 'in' and 'self.cell.apps' in f.key[2]) or \
                (f.key[0] == 'truth' and
                 f.key[1] in roles['listing']) or \
                (f.key[0] == 'is' and 'allocation' in f.key[1])
        # a condition held in a local is judged by what the local stands for
        extra = [N.show(f) for f in mine if not benign(f) and not any(
            benign(t) for t in facts[node]
            if t.raw is not None and t.raw.key == f.key)]
        ctx.ob('C11.2', func, node, bool(le) and bool(tr) and not extra,
               'recorded placement restored verbatim exactly under '
               '`presence_time and presence_time <= placement_time`%s' % (
                   ' - extra conditions: %s' % extra if extra else ''))
        exp = N.txt(defs.get(N.txt(call.args[1]), [call.args[1]])[0])
        if ".get('expires'" not in exp:
            exp = K.rtxt(func, call.args[1])
        ctx.ob('C11.2', func, node, any(
            "%s.get('expires'" % rec in exp or "%s['expires']" % rec in exp
            for rec in roles['record']),
               'with the recorded expiry (%s)' % exp,
               construct='verbatim restore value')
    # the presence stamp is a fact about the server: it is not rebound
    # while the records of that server are walked (a stamp cleared for one
    # record - "its lease ran out" - stays cleared for every later record of
    # the server, and each of them loses its verbatim restore)
    if loop is not None:
        rebinds = [n for n in K.loop_body_nodes(loop)
                   if n.kind == 'stmt' and isinstance(n.ast, ast.Assign) and
                   any(isinstance(t, ast.Name) and t.id == pname
                       for t in n.ast.targets)]
        ctx.ob('C11.2', func, rebinds[0] if rebinds else loop, not rebinds,
               'the presence stamp (%s) is read once per server and not '
               'rebound inside the walk over its records' % pname,
               construct='presence stamp fixed during the walk')
    # presence_time / placement_time definitions
    for name, want in ((pname, 'presence_node'), (tname, 'appnode')):
        leaves = M.leaf_defs(defs, name)
        vals = [N.txt(v) for v in leaves]
        stamps = [K.exact_ms_to_s(v) for v in leaves
                  if 'ctime' in N.txt(v)]
        ok = bool(stamps) and all(
            st is not None and _stamp_source(func, leaf, st, want, defs)
            for st, leaf in zip(stamps, [v for v in leaves
                                        if 'ctime' in N.txt(v)]))
        ctx.ob('C11.2', func, None, ok,
               '%s is the creation time of the node in seconds, converted '
               'without truncation (both sides of the comparison keep the '
               'millisecond order): %s' % (name, vals),
               construct='%s definition' % name)
    # the other branch
    puts = K.nodes_calling(graph, lambda c: K.is_meth(c, 'put') and
                           len(c.args) == 1 and
                           not (K.recv_text(c) or '').endswith('backend'))
    for node, call in puts:
        appv = N.txt(call.args[0])
        ok = any(f.key[0] == 'truth' and not f.key[2] and
                 f.key[1] == '%s.schedule_once' % appv for f in facts[node])
        ctx.ob('C11.2', func, node, ok,
               'after a server restart schedule-once instances are not '
               'restored; others are placed through the normal leaf '
               'placement')
        # ... and only schedule-once instances are given up without that
        # attempt: the outcome local is set to a constant False only under
        # <instance>.schedule_once (a server that is down - no presence - is
        # no reason: Server.put does not look at the state, and the
        # placement of an instance on a down server is kept for its data
        # retention time)
        tgt = node.ast.targets[0].id if node.kind == 'stmt' and isinstance(
            node.ast, ast.Assign) and isinstance(
                node.ast.targets[0], ast.Name) else None
        if tgt is None:
            continue
        for other in graph.nodes:
            if other.kind == 'stmt' and isinstance(other.ast, ast.Assign) \
                    and len(other.ast.targets) == 1 and \
                    N.txt(other.ast.targets[0]) == tgt and \
                    isinstance(other.ast.value, ast.Constant) and \
                    other.ast.value.value is False and \
                    K.enclosing_for(graph, other) is K.enclosing_for(
                        graph, node):
                okf = any(f.key[0] == 'truth' and f.key[2] and
                          f.key[1] == '%s.schedule_once' % appv
                          for f in facts[other])
                ctx.ob('C11.2', func, other, okf,
                       'a recorded placement is given up without trying the '
                       'normal placement only for a schedule-once instance',
                       construct='given up only for schedule-once')
    return func, graph, facts, loop


def _stamp_source(func, value, stamp, want, defs):
    """``stamp`` (<m>.ctime) is read from the metadata returned by
    backend.get_with_metadata(<want node>): every binding of <m> in the
    routine is the second element of such a read (by data flow - the read
    may sit in a try block of its own, the conversion after it)."""
    meta = stamp.rsplit('.', 1)[0]
    reads = []
    graph = C.CFG(func.node.body, func)
    rdefs = K.reaching_defs(graph)
    sites = [n for n in graph.nodes if n.kind == 'stmt' and
             isinstance(n.ast, ast.Assign) and n.ast.value is value]
    if not sites:
        return False
    for site in sites:
        dnodes = rdefs.get(site, {}).get(meta, ())
        if not dnodes:
            return False
        for dnode in dnodes:
            sub = dnode.ast
            tgt = sub.targets[0] if isinstance(sub, ast.Assign) and \
                len(sub.targets) == 1 else None
            if not (isinstance(tgt, ast.Tuple) and len(tgt.elts) == 2 and
                    N.txt(tgt.elts[1]) == meta and
                    isinstance(sub.value, ast.Call) and
                    K.is_meth(sub.value, 'get_with_metadata') and
                    sub.value.args):
                return False
            reads.append(sub.value.args[0])
    if not reads:
        return False
    for node in reads:
        leaves = [node] if not isinstance(node, ast.Name) else \
            M.leaf_defs(defs, node.id) or [node]
        texts = set(N.txt(v) for v in leaves) | {N.txt(node)}
        if want == 'presence_node':
            if not any('server_presence(' in t for t in texts):
                return False
        elif not any(t.endswith(want) or 'path.placement(' in t
                     for t in texts):
            return False
    return True


def _load_everything(ctx, loader):
    """The restarted master rebuilds the whole model: every stored server,
    bucket and scheduled instance is loaded - the listing of the node is
    iterated unfiltered and every iteration reaches the per-item loader."""
    for lname, item, root in (('load_servers', 'load_server', 'z.SERVERS'),
                              ('load_buckets', 'load_bucket', 'z.BUCKETS'),
                              ('load_apps', 'load_app', 'z.SCHEDULED')):
        func = loader.methods.get(lname)
        ctx.require(func is not None, 'Loader.%s' % lname)
        graph = ctx.cfg(func)
        calls = [n for n, c in K.nodes_calling(
            graph, lambda c, it=item: K.is_meth(c, it) and
            K.recv_text(c) == 'self' and c.args)]
        ok = False
        detail = 'no loop calling self.%s' % item
        for node in calls:
            loop = K.enclosing_for(graph, node)
            if loop is None:
                continue
            dom = K.rexpr(func, loop.ast.iter)
            listing = isinstance(dom, ast.Call) and \
                K.is_meth(dom, 'list') and dom.args and \
                N.txt(dom.args[0]) == root
            var = N.txt(loop.ast.target)
            call = [c for c in C.node_calls(node) if K.is_meth(c, item)][0]
            skip = K.find_path(
                loop, [loop], cut_node=lambda n, nd=node: n is nd,
                cut_edge=lambda e, lp=loop: e.src is lp and
                e.kind == 'done', follow_exc=False)
            ok = listing and N.txt(call.args[0]) == var and skip is None
            detail = 'domain %s, skip path %s' % (
                N.txt(dom), K.describe(skip) if skip else None)
        ctx.ob('C11.1', func, calls[0] if calls else None, ok,
               '%s loads every entry of %s (unfiltered listing, no '
               'iteration skips the load): %s' % (lname, root, detail),
               construct='%s loads the whole listing' % lname)


def forced_identity(ctx):
    """The forcing routine takes the recorded identity whenever one was
    recorded (identity 0 included): no condition besides `is not None` and
    the group reference."""
    nz = N.Normaliser()
    app_cls = ctx.index.get_class(K.SCHED, 'Application')
    force = ctx.index.find_method(app_cls, 'force_set_identity')
    ctx.require(force is not None, 'Application.force_set_identity')
    fgraph = ctx.cfg(force)
    ffacts = N.must_facts(fgraph, nz, edge_ok=C.no_exc)
    param = force.params()[1]
    stores = [n for n in fgraph.nodes if any(
        N.txt(t) == 'self.identity' for t, _v, _k in K.assigns_attr(n))]
    ctx.require(stores, 'store of self.identity in force_set_identity',
        rule='C11.4')
    for node in stores:
        extra = [N.show(f) for f in N.canonical(ffacts[node])
                 if not (f.key[0] == 'is' and not f.key[3] and
                         f.key[1] == param and f.key[2] == 'None') and
                 not (f.key[0] == 'truth' and f.key[2] and
                      f.key[1] == 'self.identity_group_ref')]
        val = [N.txt(v) for _t, v, _k in K.assigns_attr(node)][0]
        ctx.ob('C11.4', force, node, not extra and val == param,
               'the recorded identity is taken whenever one was recorded'
               if not extra else
               'the recorded identity is taken only under %s' % extra)


def _keys_and_identity(ctx, loader, master, func, graph, facts):
    nz = N.Normaliser()
    pdata = master.methods.get('_placement_data')
    ctx.require(pdata is not None, 'Master._placement_data')
    written = set()
    for sub in K.walk_no_nested(pdata.node):
        if isinstance(sub, ast.Return) and isinstance(sub.value, ast.Dict):
            written = set(k.value for k in sub.value.keys)
    roles = _roles(func)
    defs = M.local_defs(func)
    read = set()
    for sub in K.walk_no_nested(func.node):
        if isinstance(sub, ast.Call) and K.is_meth(sub, 'get') and \
                K.recv_text(sub) in roles['record'] and sub.args and \
                isinstance(sub.args[0], ast.Constant):
            read.add(sub.args[0].value)
    ctx.ob('C11.3', func, None, {'expires', 'identity'} <= read and
           read <= written,
           'restart reads %s; the publisher writes %s' % (sorted(read),
                                                          sorted(written)),
           construct='record keys read at restart')
    forces = K.nodes_calling(graph, lambda c: K.is_meth(
        c, 'force_set_identity'))
    ctx.require(forces, 'force_set_identity in restore_placement',
        rule='C11.4')
    for node, call in forces:
        fs = N.raw_only(facts[node])
        ok_restored = any(f.key[0] == 'truth' and f.key[2] and
                          f.key[1] in roles['result'] for f in fs)
        ok_flag = any(f.key[0] == 'truth' and f.key[2] and
                      f.key[1] == func.params()[2] for f in fs)
        ok_some = any(f.key[0] == 'is' and not f.key[3] and
                      f.key[1] in roles['identity'] for f in fs)
        extra = [N.show(f) for f in fs if f.mentions & {'server', 'app'}
                 and not (f.key[0] == 'is' and 'allocation' in f.key[1])]
        ctx.ob('C11.4', func, node, ok_restored and ok_flag and ok_some and
               not extra,
               'identity forced exactly for a restored instance, when '
               'restore_identity and an identity was recorded (facts: %s)'
               % sorted(N.show(f) for f in fs))
        ctx.ob('C11.4', func, node,
               N.txt(call.args[0]) in roles['identity'] or any(
                   K.rtxt(func, call.args[0]) == "%s.get('identity')" % rec
                   for rec in roles['record']),
               'the identity forced is the recorded one',
               construct='forced value')
    forced_identity(ctx)
    _iteration_outcomes(ctx, func, graph, roles, defs)
    # a failed restore deletes the record
    tests = [n for n in graph.nodes if n.kind == 'test' and
             N.txt(n.ast) in roles['result']]
    ctx.require(tests, 'test of the restore result', rule='C11.4')
    for test in tests:
        for edge in test.succ:
            if edge.kind != 'false':
                continue
            loop = K.enclosing_for(graph, test)

            def deletes(node):
                return any(K.is_meth(c, 'delete') and c.args and
                           M.is_record_path(c.args[0], defs) is not None
                           for c in C.node_calls(node))
            path = K.find_path_cp(
                graph, test, [loop, graph.exit], cut_node=deletes,
                cut_edge=lambda e, t=test: e.src is t and
                e.kind != 'false')
            ctx.ob('C11.4', func, test, path is None,
                   'a placement that cannot be restored has its record '
                   'deleted', path=K.describe(path) if path else None,
                   construct='failed restore deletes the record')


def _iteration_outcomes(ctx, func, graph, roles, defs):
    """C11.4: every way an iteration of the walk over the recorded instances
    can end is one of: the instance is back on the server (the restore
    result holds), its record is deleted, or the record was not there to
    begin with (the not-found handler of the read).  A record that stays
    while the model has nothing for it is a placement the restarted master
    publishes without knowing it."""
    walks = [n for n in graph.nodes if n.kind == 'for' and
             N.txt(n.ast.iter) in roles['listing']]
    ctx.require(walks, 'walk over the recorded instances', rule='C11.4',
                func=func)

    def deletes(node):
        return any(K.is_meth(c, 'delete') and c.args and
                   M.is_record_path(c.args[0], defs) is not None
                   for c in C.node_calls(node))

    def settled(node):
        if deletes(node):
            return True
        if node.kind == 'handler' and node.ast is not None and \
                node.ast.type is not None and \
                'NotFound' in N.txt(node.ast.type):
            return True
        return False

    def restored_edge(edge):
        node = edge.src
        if node.kind != 'test' or node.ast is None:
            return False
        text = N.txt(node.ast)
        return text in roles['result'] and edge.kind == 'true'
    for walk in walks:
        path = K.find_path_cp(graph, walk, [walk, graph.exit],
                              cut_node=settled, cut_edge=lambda e, w=walk:
                              restored_edge(e) or
                              (e.src is w and e.kind == 'done'),
                              follow_exc=True)
        ctx.ob('C11.4', func, walk, path is None,
               'an iteration over the recorded instances ends with the '
               'instance restored, its record deleted, or no record found',
               path=K.describe(path) if path else None,
               construct='every unrestored record is deleted')


def _nothing_else(ctx, loader, func):
    index = ctx.index
    lm = loader.methods.get('load_model')
    reach = _closure(index, loader, lm)
    bad = []
    for f in reach.values():
        if f.cls is not loader:
            continue
        for sub in K.walk_no_nested(f.node):
            if isinstance(sub, ast.Call) and K.is_meth(sub, 'put',
                                                       'restore') and \
                    not (K.recv_text(sub) or '').endswith('backend') and \
                    sub.args and f is not func:
                bad.append((f, sub))
    ctx.ob('C11.5', lm, None, not bad,
           'the only placement calls reachable from load_model are in %s'
           % func.qualname if not bad else
           'placement call outside restore_placement: %s in %s' % (
               N.txt(bad[0][1]), bad[0][0].qualname),
           construct='placement calls reachable from load_model')
    graph = ctx.cfg(func)
    loops = [n for n in graph.nodes if n.kind == 'for']
    ctx.require(loops, 'loop of restore_placement', rule='C11.5')
    defs = M.local_defs(func)
    for loop in loops:
        dom = N.txt(loop.ast.iter)
        leaves = M.leaf_defs(defs, dom)
        src = [K.rtxt(func, v) for v in leaves]

        def listing(text):
            return text in ('self.get_placed_apps(servername)',
                            'self.backend.list(z.path.placement('
                            'servername))')
        ok = any(listing(s) for s in src) and all(
            listing(s) or s in ('[]', 'list()') for s in src)
        ctx.ob('C11.5', func, loop, ok,
               'restore ranges over the stored listing of that server: '
               '%s = %s' % (dom, src), construct='restore loop domain')
        # ... all of it: the listing is not changed while it is walked
        # (removing the current element makes the walk skip the next one)
        body = K.loop_body_nodes(loop)
        changed = []
        for node in body:
            for call in C.node_calls(node):
                if K.recv_text(call) == dom and K.is_meth(
                        call, 'remove', 'pop', 'append', 'insert',
                        'extend', 'clear', 'sort', 'reverse'):
                    changed.append(N.txt(call))
            if node.kind == 'stmt' and isinstance(node.ast, ast.Delete) \
                    and any(N.txt(t).startswith(dom + '[')
                            for t in node.ast.targets):
                changed.append(N.txt(node.ast))
        ctx.ob('C11.5', func, loop, not changed,
               'the listing is not modified while it is walked%s' % (
                   ': %s' % changed if changed else ''),
               construct='restore loop domain stable')
        # ... to its end: a stale or vanished record is skipped, the walk
        # goes on with the next one
        K.exhaustive_loop(ctx, 'C11.5', func, loop,
                          'restore walk over the stored listing')
    gp = loader.methods.get('get_placed_apps')
    ctx.require(gp is not None, 'Loader.get_placed_apps')
    lists = [c for c in K.calls(gp.node) if K.is_meth(c, 'list') and
             (K.recv_text(c) or '').endswith('backend') and c.args]
    ctx.ob('C11.5', gp, None,
           bool(lists) and all(
               K.rtxt(gp, c.args[0]) == 'z.path.placement(%s)' %
               gp.params()[1] for c in lists),
           'the stored listing is the children of the server placement '
           'node', construct='get_placed_apps')


def _recorded_topology(ctx, loader):
    """C11.1: the model a restart builds does not depend on the order of a
    listing or on which step ran first: a bucket is attached to the parent
    its record names on every path (the parent is loaded on demand), and a
    server carries the partition its record names (the default only when
    the record names none) - a placement recorded under a server is
    restored only if that server sits in the cell under the right
    partition."""
    lb = loader.methods.get('load_bucket')
    ctx.require(lb is not None, 'Loader.load_bucket', rule='C11.1')
    graph = ctx.cfg(lb)
    nz = N.Normaliser()
    defs = M.local_defs(lb)
    parents = set(name for name, vals in defs.items() if any(
        isinstance(v, ast.Call) and K.is_meth(v, 'get') and v.args and
        isinstance(v.args[0], ast.Constant) and v.args[0].value == 'parent'
        for v in vals))
    named = [e for n in graph.nodes if n.kind == 'test' for e in n.succ
             if any(a.key[0] == 'truth' and a.key[2] and a.key[1] in parents
                    for a in nz.facts_of_edge(e))]
    ctx.require(named, 'test of the recorded parent in load_bucket',
                rule='C11.1', func=lb)

    def attaches(node):
        return any(K.is_meth(c, 'add_node') for c in C.node_calls(node))
    for edge in named:
        skip = None if attaches(edge.dst) else K.find_path(
            edge.dst, [graph.exit], cut_node=attaches, follow_exc=False)
        if edge.dst is graph.exit:
            skip = [edge]
        ctx.ob('C11.1', lb, edge.src, skip is None,
               'a bucket whose record names a parent is attached to it on '
               'every path', path=K.describe(skip) if skip else None,
               construct='bucket attached to its recorded parent')
    # a partition is registered under the label it carries: allocations are
    # created with the label of the partition they are looked up under, and
    # a placement is restored only on a server that has that label
    lp = [f for f in loader.live_methods() if any(
        isinstance(sub, ast.Assign) and
        isinstance(sub.targets[0], ast.Subscript) and
        N.txt(sub.targets[0].value).endswith('.partitions') and
        isinstance(sub.value, ast.Call) and
        K.callee_text(sub.value).endswith('Partition')
        for sub in K.walk_no_nested(f.node))]
    ctx.require(lp, 'registration of a partition in the loader',
                rule='C11.1')
    for func in lp:
        for sub in K.walk_no_nested(func.node):
            if not (isinstance(sub, ast.Assign) and
                    isinstance(sub.targets[0], ast.Subscript) and
                    N.txt(sub.targets[0].value).endswith('.partitions') and
                    isinstance(sub.value, ast.Call) and
                    K.callee_text(sub.value).endswith('Partition')):
                continue
            key = K.rtxt(func, sub.targets[0].slice)
            label = K.kwarg(sub.value, 'label')
            ltxt = K.rtxt(func, label) if label is not None else None
            ctx.ob('C11.1', func, sub, ltxt == key,
                   'a partition is registered under the label it carries '
                   '(key %s, label %s)' % (key, ltxt),
                   construct='partition key = label')
    cs = loader.methods.get('create_server')
    ctx.require(cs is not None, 'Loader.create_server', rule='C11.1')
    cgraph = ctx.cfg(cs)
    ctors = [c for c in K.calls(cs.node)
             if K.callee_text(c).endswith('Server')]
    ctx.require(ctors, 'Server constructor in create_server', rule='C11.1',
                func=cs)
    lab = K.kwarg(ctors[0], 'label')
    ctx.require(isinstance(lab, ast.Name), 'partition label local of '
                'create_server', rule='C11.1', func=cs)
    facts = N.must_facts(cgraph, nz)

    def recorded(expr):
        return isinstance(expr, ast.Call) and K.is_meth(expr, 'get') and \
            expr.args and isinstance(expr.args[0], ast.Constant) and \
            expr.args[0].value == 'partition'
    seen = 0
    for node in cgraph.nodes:
        if not (node.kind == 'stmt' and isinstance(node.ast, ast.Assign) and
                len(node.ast.targets) == 1 and
                N.txt(node.ast.targets[0]) == lab.id):
            continue
        val = node.ast.value
        seen += 1
        ok = recorded(val) or (
            isinstance(val, ast.BoolOp) and isinstance(val.op, ast.Or) and
            recorded(val.values[0])) or any(
                f.key == ('truth', lab.id, False) for f in facts[node])
        ctx.ob('C11.1', cs, node, ok,
               'the partition of a server is the recorded one; another value '
               'only when the record names none (%s)' % N.txt(node.ast),
               construct='recorded partition kept')
    ctx.require(seen >= 1, 'assignment of the partition label in '
                'create_server', rule='C11.1', func=cs)


def check(ctx):
    loader = ctx.index.get_class(K.LOADER, 'Loader')
    master = ctx.index.get_class(K.MASTER, 'Master')
    _load_order(ctx, loader)
    _recorded_topology(ctx, loader)
    # shared with C08.2: the verbatim restore goes through Server.restore ->
    # Server.put, which therefore admit an instance whatever the state of
    # the server (a frozen or down server keeps what was recorded under it)
    from . import c08
    with ctx.shared({'C08': 'C11.2'}):
        c08._leaf_ignores_state(ctx)
    _load_everything(ctx, loader)
    # shared with C01.6 / C03.2: the verbatim restore ignores the lease
    # completely (neutralised before the leaf placement and not set again
    # before it) - a restore that re-checks "what is left of the lease"
    # drops a recorded instance whenever the server's lifetime was shortened
    # between the placement and the fail-over
    from . import c01
    with ctx.shared({'C01': 'C11.2'}):
        _nz1, srv1, _n1, put1, _r1, _p1 = c01._roles(ctx)
        c01._restore(ctx, srv1, put1, rule='C11.2')
    found = _verbatim(ctx, loader)
    if found is None:
        return
    func, graph, facts, _loop = found
    _keys_and_identity(ctx, loader, master, func, graph, facts)
    _nothing_else(ctx, loader, func)


_L = 'lib/python/treadmill/scheduler/loader.py'
_M = 'lib/python/treadmill/scheduler/master.py'

MUTANTS = [
    ('identity-groups-after-restore', [(_L, """        self.load_identity_groups()
        self.restore_placements()
""", """        self.restore_placements()
        self.load_identity_groups()
""")], 'C11.1'),
    ('apps-before-allocations', [(_L, """        self.load_allocations()
        self.load_strategies()
        self.load_apps_blacklist()
        self.load_apps()
""", """        self.load_apps_blacklist()
        self.load_apps()
        self.load_allocations()
        self.load_strategies()
""")], 'C11.1'),
    ('servers-before-buckets', [(_L, """        self.load_buckets()
        self.load_cell()
        self.load_servers_blacklist()
        self.load_servers()
""", """        self.load_servers_blacklist()
        self.load_servers()
        self.load_buckets()
        self.load_cell()
""")], 'C11.1'),
    ('traits-last', [(_L, """        self.load_traits()
        self.load_partitions()
""", """        self.load_partitions()
"""), (_L, """        self.load_identity_groups()
        self.restore_placements()
""", """        self.load_identity_groups()
        self.load_traits()
        self.restore_placements()
""")], 'C11.1'),
    ('verbatim-through-put', [(_L, """                restored = server.restore(app, expires)
""", """                restored = server.put(app)
                if restored:
                    app.placement_expiry = expires
""")], 'C11.2'),
    ('verbatim-only-when-up', [(_L, """            if presence_time and presence_time <= placement_time:
""", """            if (server.state is scheduler.State.up and
                    presence_time and presence_time <= placement_time):
""")], 'C11.2'),
    ('verbatim-reversed', [(_L, """            if presence_time and presence_time <= placement_time:
""", """            if presence_time and presence_time > placement_time:
""")], 'C11.2'),
    ('verbatim-new-expiry', [(_L, """                restored = server.restore(app, expires)
""", """                restored = server.restore(app, time.time() + app.lease)
""")], 'C11.2'),
    ('schedule-once-restored-after-restart', [(_L, """                if app.schedule_once:
                    restored = False
                else:
                    restored = server.put(app)
""", """                if app.schedule_once and not app.evicted:
                    restored = False
                else:
                    restored = server.put(app)
""")], 'C11.2'),
    ('reads-other-key', [(_L, """                expires = data.get('expires', 0)
""", """                expires = data.get('expiry', 0)
""")], 'C11'),
    ('identity-always-forced', [(_L, """                if restore_identity and identity is not None:
""", """                if identity is not None:
""")], 'C11.4'),
    ('identity-forced-before-restore', [(_L, """            if not restored:
                _LOGGER.info('Failed to restore placement %s => %s',
                             appname, servername)
""", """            if identity is not None and app.identity_group_ref:
                app.force_set_identity(identity)
            if not restored:
                _LOGGER.info('Failed to restore placement %s => %s',
                             appname, servername)
""")], 'C11.4'),
    ('failed-restore-keeps-record', [(_L, """                _LOGGER.info('Failed to restore placement %s => %s',
                             appname, servername)
                self.backend.delete(appnode)
""", """                _LOGGER.info('Failed to restore placement %s => %s',
                             appname, servername)
""")], 'C11.4'),
    ('load-apps-places', [(_L, """        app.blacklisted = self._is_blacklisted(appname)

        self.cell.add_app(allocation, app)
""", """        app.blacklisted = self._is_blacklisted(appname)

        self.cell.add_app(allocation, app)
        for server in self.servers.values():
            if server.put(app):
                break
""")], 'C11.5'),
]

MUTANTS += [
    ('forced-identity-only-if-free', [(
        'lib/python/treadmill/scheduler/__init__.py',
        """        if identity is not None:
            assert self.identity_group_ref
            self.identity = identity
""", """        if identity is not None and \\
                identity in self.identity_group_ref.available:
            assert self.identity_group_ref
            self.identity = identity
""")], 'C11.4'),
]

REFACTORS = [
    ('independent-steps-reordered', [(_L, """        self.load_traits()
        self.load_partitions()
""", """        self.load_partitions()
        self.load_traits()
""")]),
    ('verbatim-swapped-operands', [(_L, """            if presence_time and presence_time <= placement_time:
""", """            if presence_time and placement_time >= presence_time:
""")]),
    ('verbatim-is-not-none', [(_L, """            if presence_time and presence_time <= placement_time:
""", """            if presence_time is not None and \\
                    presence_time <= placement_time:
""")]),
]

# sweep-driven clauses (DESIGN 9.7)
MUTANTS += [
    ('stale-record-kept', [(_L, """                # Stale app - safely ignored.
                self.backend.delete(appnode)
""", """                # Stale app - safely ignored.
""")], 'C11.4'),
    ('schedule-once-record-kept', [(_L, """                if app.schedule_once:
                    restored = False
                else:
""", """                if app.schedule_once:
                    continue
                else:
""")], 'C11.4'),
]
