#!/bin/bash
# usage: rf.sh <diff> <PROP> : apply a diff to the scratch worktree /tmp/rf (created on demand) and run one check on it
[ -d /tmp/rf ] || git -C /repo worktree add -q --detach /tmp/rf HEAD
git -C /tmp/rf checkout -q -- . && git -C /tmp/rf clean -fdq
git -C /tmp/rf apply "$1" || exit 3
cd /verif && TREADMILL_SA_REPO=/tmp/rf TREADMILL_SA_EVIDENCE=/tmp/rfev ./check "$2" | grep -v "^      " | cut -c1-${3:-330}
