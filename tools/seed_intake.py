#!/venv/bin/python
"""Confirm a seeded change delivered by a sub-agent and file it under /verif/seeded/<name>/.

usage: seed_intake.py <PROP> <variant> <out-dir> [needs-text]
Confirms in a scratch worktree of /repo HEAD: demo passes on the clean tree, patch applies, demo fails with the
patch, pinned baseline still passes with the patch.  Then files patch.diff, demo.py, meta.json.
"""
import json, os, shutil, subprocess, sys

prop, var, out = sys.argv[1], sys.argv[2], sys.argv[3]
needs = sys.argv[4] if len(sys.argv) > 4 else ''
store = sys.argv[5] if len(sys.argv) > 5 else var
name = '%s-%s' % (prop, store)
wt = '/tmp/sa-intake-%s' % name
patch = os.path.join(out, '%s.diff' % var)
demo = os.path.join(out, 'demo_%s.py' % var)
assert os.path.isfile(patch) and os.path.isfile(demo), 'missing deliverable'


def run(cmd, **kw):
    return subprocess.run(cmd, stdout=subprocess.PIPE, stderr=subprocess.STDOUT, universal_newlines=True, **kw)


subprocess.call(['git', '-C', '/repo', 'worktree', 'remove', '--force', wt], stderr=subprocess.DEVNULL)
assert run(['git', '-C', '/repo', 'worktree', 'add', '-q', '--detach', wt, 'HEAD']).returncode == 0
meta = {'property': prop, 'variant': store, 'needs_to_manifest': needs, 'ran': []}
try:
    env = dict(os.environ, TM_LIB=os.path.join(wt, 'lib/python'))
    r = run(['/venv/bin/python', demo], env=env, timeout=600)
    meta['ran'].append({'cmd': 'TM_LIB=<clean>/lib/python /venv/bin/python demo.py', 'exit': r.returncode})
    clean_ok = r.returncode == 0
    r = run(['git', '-C', wt, 'apply', os.path.abspath(patch)])
    applied = r.returncode == 0
    meta['ran'].append({'cmd': 'git apply patch.diff', 'exit': r.returncode, 'out': r.stdout[-300:]})
    changed_fail = False
    base_ok = False
    if applied:
        r = run(['/venv/bin/python', demo], env=env, timeout=600)
        meta['ran'].append({'cmd': 'TM_LIB=<changed>/lib/python /venv/bin/python demo.py', 'exit': r.returncode,
                            'tail': r.stdout[-400:]})
        changed_fail = r.returncode != 0
        r = run(['/venv/bin/python', '/verif/tools/baseline.py', wt])
        meta['ran'].append({'cmd': 'tools/baseline.py <changed tree>', 'exit': r.returncode, 'out': r.stdout.strip()[-200:]})
        base_ok = r.returncode == 0
        r = run(['/venv/bin/python', '-m', 'compileall', '-q', os.path.join(wt, 'lib/python/treadmill')])
    meta['confirmed'] = bool(clean_ok and applied and changed_fail and base_ok)
    print(name, 'clean_demo_ok=%s applied=%s changed_demo_fails=%s baseline_ok=%s' % (clean_ok, applied, changed_fail, base_ok))
    if meta['confirmed']:
        dst = os.path.join('/verif/seeded', name)
        os.makedirs(dst, exist_ok=True)
        shutil.copy(patch, os.path.join(dst, 'patch.diff'))
        shutil.copy(demo, os.path.join(dst, 'demo.py'))
        notes = os.path.join(out, 'notes.md')
        if os.path.isfile(notes):
            shutil.copy(notes, os.path.join(dst, 'agent_notes.md'))
        with open(os.path.join(dst, 'meta.json'), 'w') as fh:
            json.dump(meta, fh, indent=1)
finally:
    subprocess.call(['git', '-C', '/repo', 'worktree', 'remove', '--force', wt])
sys.exit(0 if meta.get('confirmed') else 1)
