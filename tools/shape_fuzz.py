#!/venv/bin/python
"""Robustness sweep with mechanical, behaviour-preserving rewrites of one whole module at a time; every alarm is a
recogniser bound to the shape of the source rather than to what it computes.

usage: shape_fuzz.py <mode> [repo-relative module path ...]     (default: every module the rule modules mention)

modes
  rename    every local variable of every function gets a suffix (tools/rename_fuzz.py, kept for the record)
  mirror    a < b  ->  b > a   (every single-operator ordering / equality comparison)
  invert    if c: A else: B  ->  if not c: B else: A
  nest      if c: continue/return ; REST   ->  if not c: REST  (guard clause turned into a nested block, at the end of
            loop bodies / function bodies only, where nothing follows REST)
  guard     if c: BODY  (last statement of a loop body)  ->  if not c: continue ; BODY
  demorgan  not (a and b) <-> not a or not b ;  (a and b) in an if-test with else  ->  inverted with De Morgan
  uncomp    X = [E for t in IT if C]  ->  X = [] ; for t in IT: if C: X.append(E)
  nameflag  if <test>: ...  ->  _flagN = <test> ; if _flagN: ...   (named boolean)
  split     if a and b: X  ->  if a: if b: X
  inline1   x = E ; <next statement using x once>  ->  that statement with E
  combo     rename, mirror, invert, demorgan, split, uncomp, guard, nameflag applied one after the other
Writes nothing under /repo: each variant lives in a scratch worktree that is removed afterwards.
"""
import ast, copy, glob, os, re, subprocess, sys, tempfile
from concurrent.futures import ThreadPoolExecutor

ALL = ['C%02d' % i for i in range(1, 21)]
mode = sys.argv[1]
args = sys.argv[2:]

MIRROR = {ast.Lt: ast.Gt, ast.Gt: ast.Lt, ast.LtE: ast.GtE, ast.GtE: ast.LtE, ast.Eq: ast.Eq, ast.NotEq: ast.NotEq}


def anchored_modules():
    mods = set()
    for path in glob.glob('/verif/sa/rules/*.py'):
        text = open(path).read()
        for m in re.finditer(r"'(lib/python/treadmill/[\w/]+\.py)'", text):
            mods.add(m.group(1))
        for m in re.finditer(r"'(treadmill(?:\.\w+)+)'", text):
            rel = 'lib/python/' + m.group(1).replace('.', '/')
            for cand in (rel + '.py', rel + '/__init__.py'):
                if os.path.isfile(os.path.join('/repo', cand)):
                    mods.add(cand)
    return sorted(mods)


def pure(expr):
    """No call, no await/yield: evaluating it twice or in another order is harmless."""
    return not any(isinstance(n, (ast.Call, ast.Await, ast.Yield, ast.YieldFrom, ast.NamedExpr)) for n in ast.walk(expr))


def negate(test):
    if isinstance(test, ast.UnaryOp) and isinstance(test.op, ast.Not):
        return test.operand
    if isinstance(test, ast.Compare) and len(test.ops) == 1:
        flip = {ast.Eq: ast.NotEq, ast.NotEq: ast.Eq, ast.Is: ast.IsNot, ast.IsNot: ast.Is, ast.In: ast.NotIn,
                ast.NotIn: ast.In}
        if type(test.ops[0]) in flip:
            return ast.Compare(left=test.left, ops=[flip[type(test.ops[0])]()], comparators=test.comparators)
    return ast.UnaryOp(op=ast.Not(), operand=test)


class Mirror(ast.NodeTransformer):
    count = 0

    def visit_Compare(self, node):
        self.generic_visit(node)
        if len(node.ops) == 1 and type(node.ops[0]) in MIRROR and pure(node.left) and pure(node.comparators[0]):
            Mirror.count += 1
            return ast.Compare(left=node.comparators[0], ops=[MIRROR[type(node.ops[0])]()], comparators=[node.left])
        return node


class Invert(ast.NodeTransformer):
    count = 0

    def visit_If(self, node):
        self.generic_visit(node)
        if node.orelse and not (len(node.orelse) == 1 and isinstance(node.orelse[0], ast.If)):
            Invert.count += 1
            return ast.If(test=negate(node.test), body=node.orelse, orelse=node.body)
        return node


def _jumps(stmt):
    return isinstance(stmt, (ast.Continue, ast.Return, ast.Raise, ast.Break))


class Nest(ast.NodeTransformer):
    """guard clause `if c: continue` followed by REST up to the end of a loop body -> if not c: REST"""
    count = 0

    def _loop_body(self, body):
        for idx, st in enumerate(body):
            if isinstance(st, ast.If) and not st.orelse and len(st.body) == 1 and isinstance(st.body[0], ast.Continue) \
                    and idx + 1 < len(body):
                rest = self._loop_body(body[idx + 1:])
                Nest.count += 1
                return body[:idx] + [ast.If(test=negate(st.test), body=rest, orelse=[])]
        return body

    def visit_For(self, node):
        self.generic_visit(node)
        node.body = self._loop_body(node.body)
        return node

    visit_While = visit_For


class Guard(ast.NodeTransformer):
    """`if c: BODY` as the last statement of a loop body -> `if not c: continue` ; BODY"""
    count = 0

    def visit_For(self, node):
        self.generic_visit(node)
        last = node.body[-1] if node.body else None
        if isinstance(last, ast.If) and not last.orelse and len(node.body) >= 1 and \
                not any(isinstance(n, (ast.Break,)) for n in ast.walk(last)):
            Guard.count += 1
            node.body = node.body[:-1] + [ast.If(test=negate(last.test), body=[ast.Continue()], orelse=[])] + last.body
        return node

    visit_While = visit_For


class DeMorgan(ast.NodeTransformer):
    count = 0

    def visit_If(self, node):
        self.generic_visit(node)
        test = node.test
        if isinstance(test, ast.BoolOp) and node.orelse and \
                not (len(node.orelse) == 1 and isinstance(node.orelse[0], ast.If)):
            DeMorgan.count += 1
            op = ast.Or() if isinstance(test.op, ast.And) else ast.And()
            return ast.If(test=ast.BoolOp(op=op, values=[negate(v) for v in test.values]), body=node.orelse,
                          orelse=node.body)
        return node

    def visit_UnaryOp(self, node):
        self.generic_visit(node)
        if isinstance(node.op, ast.Not) and isinstance(node.operand, ast.BoolOp):
            DeMorgan.count += 1
            op = ast.Or() if isinstance(node.operand.op, ast.And) else ast.And()
            return ast.BoolOp(op=op, values=[negate(v) for v in node.operand.values])
        return node


class Uncomp(ast.NodeTransformer):
    count = 0

    def _block(self, body):
        out = []
        for st in body:
            if isinstance(st, ast.Assign) and len(st.targets) == 1 and isinstance(st.targets[0], ast.Name) and \
                    isinstance(st.value, ast.ListComp) and len(st.value.generators) == 1 and \
                    not st.value.generators[0].is_async and \
                    st.targets[0].id not in [n.id for n in ast.walk(st.value) if isinstance(n, ast.Name)]:
                gen = st.value.generators[0]
                name = st.targets[0].id
                inner = [ast.Expr(value=ast.Call(func=ast.Attribute(value=ast.Name(id=name, ctx=ast.Load()),
                                                                   attr='append', ctx=ast.Load()),
                                                args=[st.value.elt], keywords=[]))]
                for cond in reversed(gen.ifs):
                    inner = [ast.If(test=cond, body=inner, orelse=[])]
                Uncomp.count += 1
                out.append(ast.Assign(targets=[ast.Name(id=name, ctx=ast.Store())], value=ast.List(elts=[], ctx=ast.Load())))
                out.append(ast.For(target=gen.target, iter=gen.iter, body=inner, orelse=[]))
                continue
            out.append(st)
        return out

    def generic_visit(self, node):
        super().generic_visit(node)
        for field in ('body', 'orelse', 'finalbody'):
            sub = getattr(node, field, None)
            if isinstance(sub, list) and sub and isinstance(sub[0], ast.stmt):
                setattr(node, field, self._block(sub))
        return node


class NameFlag(ast.NodeTransformer):
    """if <compound or comparison>: ...  ->  _flagN = <test> ; if _flagN: ...  (a named boolean; while-tests untouched)"""
    count = 0

    def _block(self, body):
        out = []
        for st in body:
            if isinstance(st, ast.If) and isinstance(st.test, (ast.Compare, ast.BoolOp, ast.UnaryOp, ast.Call)):
                NameFlag.count += 1
                name = '_flag%d' % NameFlag.count
                out.append(ast.Assign(targets=[ast.Name(id=name, ctx=ast.Store())], value=st.test))
                st = ast.If(test=ast.Name(id=name, ctx=ast.Load()), body=st.body, orelse=st.orelse)
            out.append(st)
        return out

    def generic_visit(self, node):
        super().generic_visit(node)
        for field in ('body', 'orelse', 'finalbody'):
            sub = getattr(node, field, None)
            if isinstance(sub, list) and sub and isinstance(sub[0], ast.stmt):
                if field == 'orelse' and isinstance(node, ast.If) and len(sub) == 1 and isinstance(sub[0], ast.If):
                    continue        # keep elif chains (the flag would be computed too early otherwise)
                setattr(node, field, self._block(sub))
        return node


class Split(ast.NodeTransformer):
    """if a and b: X   (no else)  ->  if a: if b: X"""
    count = 0

    def visit_If(self, node):
        self.generic_visit(node)
        if not node.orelse and isinstance(node.test, ast.BoolOp) and isinstance(node.test.op, ast.And):
            Split.count += 1
            inner = node.body
            for val in reversed(node.test.values):
                inner = [ast.If(test=val, body=inner, orelse=[])]
            return inner[0]
        return node


class Inline1(ast.NodeTransformer):
    """x = E ; <statement using x once>  ->  statement with E   (x used nowhere else in the function, E has no call)"""
    count = 0

    def visit_FunctionDef(self, node):
        self.generic_visit(node)
        uses = {}
        for n in ast.walk(node):
            if isinstance(n, ast.Name):
                uses[n.id] = uses.get(n.id, 0) + 1

        def block(body):
            out = []
            idx = 0
            while idx < len(body):
                st = body[idx]
                nxt = body[idx + 1] if idx + 1 < len(body) else None
                if isinstance(st, ast.Assign) and len(st.targets) == 1 and isinstance(st.targets[0], ast.Name) and \
                        uses.get(st.targets[0].id) == 2 and pure(st.value) and nxt is not None and \
                        isinstance(nxt, (ast.Expr, ast.Assign, ast.Return, ast.If)):
                    name = st.targets[0].id
                    host = nxt.test if isinstance(nxt, ast.If) else nxt
                    hits = [n for n in ast.walk(host) if isinstance(n, ast.Name) and n.id == name and
                            isinstance(n.ctx, ast.Load)]
                    if len(hits) == 1 and not any(isinstance(n, (ast.Lambda, ast.ListComp, ast.SetComp, ast.DictComp,
                                                                   ast.GeneratorExp)) for n in ast.walk(host)):
                        class Sub(ast.NodeTransformer):
                            def visit_Name(self, n):
                                return st.value if n.id == name and isinstance(n.ctx, ast.Load) else n
                        if isinstance(nxt, ast.If):
                            nxt.test = Sub().visit(nxt.test)
                        else:
                            nxt = Sub().visit(nxt)
                        Inline1.count += 1
                        out.append(nxt)
                        idx += 2
                        continue
                out.append(st)
                idx += 1
            for st in out:
                for field in ('body', 'orelse', 'finalbody'):
                    sub = getattr(st, field, None)
                    if isinstance(sub, list) and sub and isinstance(sub[0], ast.stmt) and \
                            not isinstance(st, (ast.FunctionDef, ast.ClassDef)):
                        setattr(st, field, block(sub))
                for hdl in getattr(st, 'handlers', None) or ():
                    hdl.body = block(hdl.body)
            return out
        node.body = block(node.body)
        return node


class _Renamer(ast.NodeTransformer):
    def __init__(self, names):
        self.names = names

    def visit_Name(self, node):
        if node.id in self.names:
            node.id = node.id + '_rn'
        return node

    def visit_ExceptHandler(self, node):
        if node.name in self.names:
            node.name = node.name + '_rn'
        return self.generic_visit(node)


def _locals_of(fdef):
    stores, banned = set(), set()
    for node in ast.walk(fdef):
        if isinstance(node, ast.Name) and isinstance(node.ctx, (ast.Store, ast.Del)):
            stores.add(node.id)
        elif isinstance(node, ast.ExceptHandler) and node.name:
            stores.add(node.name)
        elif isinstance(node, (ast.Global, ast.Nonlocal)):
            banned.update(node.names)
        elif isinstance(node, ast.arg):
            banned.add(node.arg)
        elif isinstance(node, (ast.FunctionDef, ast.AsyncFunctionDef, ast.ClassDef)) and node is not fdef:
            banned.add(node.name)
        elif isinstance(node, (ast.Import, ast.ImportFrom)):
            for alias in node.names:
                banned.add((alias.asname or alias.name).split('.')[0])
    return set(n for n in stores - banned if not n.startswith('__'))


class Rename(ast.NodeTransformer):
    """every local of every top-level function / method gets the suffix _rn (as tools/rename_fuzz.py)"""
    count = 0

    def visit_Module(self, tree):
        for node in ast.walk(tree):
            body = getattr(node, 'body', None)
            if not isinstance(node, (ast.Module, ast.ClassDef)) or not isinstance(body, list):
                continue
            for item in body:
                if isinstance(item, (ast.FunctionDef, ast.AsyncFunctionDef)):
                    names = _locals_of(item)
                    if names:
                        _Renamer(names).visit(item)
                        Rename.count += len(names)
        return tree


MODES = {'mirror': Mirror, 'invert': Invert, 'nest': Nest, 'guard': Guard, 'demorgan': DeMorgan, 'uncomp': Uncomp,
         'nameflag': NameFlag, 'split': Split, 'inline1': Inline1, 'rename': Rename}
COMBO = ['rename', 'mirror', 'invert', 'demorgan', 'split', 'uncomp', 'guard', 'nameflag']


def transform(src):
    tree = ast.parse(src)
    total = 0
    for name in (COMBO if mode == 'combo' else [mode]):
        cls = MODES[name]
        cls.count = 0
        tree = cls().visit(tree)
        ast.fix_missing_locations(tree)
        tree = ast.parse(ast.unparse(tree))     # fresh, well-formed tree for the next pass
        total += cls.count
    return ast.unparse(tree), total


def one(rel):
    wt = '/tmp/sa-sf-%s-%s' % (mode, rel.replace('/', '_')[-50:])
    subprocess.call(['git', '-C', '/repo', 'worktree', 'remove', '--force', wt], stderr=subprocess.DEVNULL)
    subprocess.check_call(['git', '-C', '/repo', 'worktree', 'add', '-q', '--detach', wt, 'HEAD'])
    try:
        path = os.path.join(wt, rel)
        new, count = transform(open(path).read())
        compile(new, path, 'exec')
        open(path, 'w').write(new)
        if not count:
            return rel, 0, []
        ev = tempfile.mkdtemp()
        env = dict(os.environ, TREADMILL_SA_REPO=wt, TREADMILL_SA_EVIDENCE=ev)
        out = []
        for p in ALL:
            r = subprocess.run(['/verif/check', p], env=env, stdout=subprocess.PIPE, universal_newlines=True)
            if r.returncode:
                lines = [l for l in r.stdout.splitlines() if ': [' in l or 'ANALYSIS-ERROR' in l]
                out.append('%s exit=%d\n      %s' % (p, r.returncode, '\n      '.join(l[l.find('[C'):][:220] for l in lines[:4])))
        subprocess.call(['rm', '-rf', ev])
        return rel, count, out
    finally:
        subprocess.call(['git', '-C', '/repo', 'worktree', 'remove', '--force', wt])


mods = args or anchored_modules()
with ThreadPoolExecutor(5) as ex:
    for rel, count, out in ex.map(one, mods):
        print('%-8s %-52s %4d sites  %s' % (mode, rel, count, 'ALARM\n   ' + '\n   '.join(out) if out else 'silent'))
