#!/venv/bin/python
"""Re-run the demonstration of every recorded seed against the current tree: the demo must exit 0 on /repo HEAD and non-zero with the
seed's patch applied (scratch worktrees, nothing of /repo is modified).  Used after a `fix:` commit: a repair can change what a demo
shows.  usage: seed_demo_check.py [seed-dir ...]   (default: every /verif/seeded/*)"""
import glob, os, subprocess, sys
from concurrent.futures import ThreadPoolExecutor

seeds = sys.argv[1:] or sorted(glob.glob('/verif/seeded/C*'))
ENV = dict(os.environ, PYTHONDONTWRITEBYTECODE='1')


def run(demo, lib):
    try:
        r = subprocess.run(['/venv/bin/python', demo], env=dict(ENV, TM_LIB=lib), cwd='/tmp', stdout=subprocess.DEVNULL,
                           stderr=subprocess.DEVNULL, timeout=600)
        return r.returncode
    except subprocess.TimeoutExpired:
        return 'timeout'


def one(seed):
    name = os.path.basename(seed)
    demo = os.path.join(seed, 'demo.py')
    if not os.path.isfile(demo):
        return name, 'no demo'
    wt = '/tmp/sa-demochk-%s' % name
    subprocess.call(['git', '-C', '/repo', 'worktree', 'remove', '--force', wt], stderr=subprocess.DEVNULL)
    subprocess.check_call(['git', '-C', '/repo', 'worktree', 'add', '-q', '--detach', wt, 'HEAD'])
    try:
        clean = run(demo, wt + '/lib/python')
        if subprocess.call(['git', '-C', wt, 'apply', os.path.join(seed, 'patch.diff')], stderr=subprocess.DEVNULL):
            return name, 'PATCH-DOES-NOT-APPLY'
        changed = run(demo, wt + '/lib/python')
        ok = clean == 0 and changed not in (0, 'timeout')
        return name, 'ok' if ok else 'DEMO-MISMATCH clean=%s changed=%s' % (clean, changed)
    finally:
        subprocess.call(['git', '-C', '/repo', 'worktree', 'remove', '--force', wt])


with ThreadPoolExecutor(6) as ex:
    bad = 0
    for name, res in ex.map(one, seeds):
        if res != 'ok':
            bad += 1
            print('%-8s %s' % (name, res), flush=True)
    print('%d seeds, %d not ok' % (len(seeds), bad))
