#!/venv/bin/python
"""Generate /verif/MANIFEST.json from the rule modules present under sa/rules (claims) and NOT_APPLICABLE below."""
import importlib, json, os, sys
sys.path.insert(0, '/verif')
sys.dont_write_bytecode = True
props = [json.loads(l) for l in open('/verif/properties.jsonl')]
TECH = {
 'C01': 'AST/CFG guard dominance with interpreted vector helpers, effect-pairing automaton on Server.put/remove, who-may-write over resolved classes, typestate product on the placement loop, table agreement of the unit conversion, dominance of the before/after snapshots over every placement mutator (fixed point over routines writing .server/.placement_expiry)',
 'C02': 'must-facts dataflow over the CFG with interpreted vector helpers (aggregate monotonicity), must-pass-through for aggregate and trait propagation, guard-by-cut on every rejecting exit of the bucket admission and of the pre-walk, attribute read-set vs memo-key completeness (SHAPE-COMPLETE)',
 'C03': 'guard-by-cut dominance for disjunctive guards, who-may-call for the lease bypass, flag-sensitive path search for the re-validation pass, keyword agreement of sibling trait encoders',
 'C04': 'PAIR rules on counter maintenance, normal-form comparison of the limit test, loop-exit analysis of the ancestor walk in the leaf placement',
 'C05': 'typestate product (CFG x placed/identity automaton) with path witnesses, must-pass-through release pairing (also before an instance leaves the model), path search for skipped instances of the revocation pass, guard normal forms on IdentityGroup pool operations',
 'C06': 'normal form of the sort key, path-sensitive product (rank value x cap test x reservation test) at the construction of the queue entry, sibling agreement of the two queue generators by positions, yield-count automaton per iteration, list-contribution data flow of the merge inputs, typestate on the unplaced-rank branch',
 'C07': 'guard dominance and loop-exit analysis on the victim scan of the placement loop, early-exit enumeration before the restore attempt, record-before-remove ordering, lifetime of the restore map',
 'C08': 'must-facts on the inactive-server pass (per contribution to the collected list), Venn-region evaluation of the presence set expressions, guard dominance (not blacklisted / state up), ordering of the cycle passes, must-pass-through of the unschedule-mark reset on every un-placement',
 'C09': 'Venn-region evaluation of the reconciliation loop domains with reaching definitions, data-flow of record payloads, exact guard sets on the publication loops, snapshot dominance over placement mutators, who-may-write for published attributes, single-funnel who-may-call',
 'C10': 'NO-PATH (delete reachable from put) on the CFG of every publication routine, exact guard sets of the removal pass, loop-filter analysis of the restart repair, flag-sensitive must-pass-through of the restored-list report',
 'C11': 'def-use derived precedence table checked against the call order of load_model, exact guard set of the verbatim branch, must-pass-through on failed restores, call-graph reachability of placement calls, structural check of the millisecond-to-second conversion on both compared stamps',
 'C12': 'Venn-region evaluation of the cache synchronisation domains, CFG ordering/cleanup analysis of fs.write_safe incl. exceptional edges, who-may-create, constant folding of the temp prefix',
 'C13': 'key-kind inference (instance vs container) over one directory namespace, guard dominance, exact-condition checks on the to-configure map, ordering of handler gates, def-use sources and pre-truncation scaling of the generation id',
 'C14': 'sibling cross-check of three managers: exclusive-create primitive, owner-equality guard normal form on every unlink, exception-handler dominance for garbage collection, data-flow of allocated addresses',
 'C15': 'writer/reader table agreement: format-template fields vs regex AST (re._parser) groups and separator alphabets, folded constants (62**13 >= 2**77), slots/constructor/enum agreement of event classes, LDAP schema table checks',
 'C16': 'symbolic descriptor extraction (resource, constant, payload terms, loop domain, condition) from start and finish with inlining, literal-loop unrolling and argument binding; coverage and implication check; release-is-last ordering; loop-exit analysis of unlink_all; folded port constants',
 'C17': 'guard dominance on owner-session equality, branch write-freedom, who-may-write inside the service class, must-pass-through recording after successful creates, equality (not prefix) guards on unregister',
 'C18': 'dominance of the snapshot create over deletes, must-facts on selection guards (linear normal forms), slice normal form of history pruning, SQL column agreement',
 'C19': 'table agreement of (dimension, parser, source key) triples across three routines, dominance of the capacity check over admin writes, JSON verb-schema required keys vs subscripted keys, loop-exit analysis of the trait loop',
 'C20': 'definitions compared as resolved expressions (min/floor, linear slices), guard dominance, folded constants of the token bucket, Venn-region evaluation and must-reach of the monitor watch passes, exception-handler table',
}
NOT_APPLICABLE = {}
checks = []
na = []
for p in props:
    pid = p['id']
    path = '/verif/sa/rules/%s.py' % pid.lower()
    if not os.path.isfile(path):
        na.append({'property_id': pid, 'reason': NOT_APPLICABLE.get(pid, 'check not implemented yet; planned structural clauses are in DESIGN.md section 3.%s' % pid)})
        continue
    mod = importlib.import_module('sa.rules.%s' % pid.lower())
    expl = ' '.join(mod.EXPLANATION.split())
    expl += (' Generic clause %s.0 (every property, over its anchored modules): a routine that reads state outside the process '
             '(file system, clock, ZooKeeper, admin store) carries no memoising decorator and keeps nothing in a module-level '
             'container between calls.' % pid)
    checks.append({
        'property_id': pid,
        'quick_cmd': './check %s --tier quick' % pid,
        'thorough_cmd': './check %s --tier thorough' % pid,
        'evidence_file': '/verif/evidence/%s.json' % pid,
        'replay_cmd_template': './check %s --replay {path}' % pid,
        'engine': 'sa',
        'level_claimed': {
            'category': 'other',
            'text': ('Static analysis (no execution of the repository): decides the structural necessary-condition clauses of %s on every path of '
                     'the current source and reports the offending construct; it does not decide the behavioural property over histories. ' % pid) + expl,
            'design_ref': 'DESIGN.md section 3, %s' % pid,
        },
        'level_note': 'Trusted base: CPython ast parser; CFG construction of sa/cfg.py (any call may raise); ' + '; '.join(getattr(mod, 'ASSUMPTIONS', [])),
        'technique': 'static analysis: ' + TECH.get(pid, 'AST/CFG rules specific to this repository'),
    })
m = {
 'version': 1,
 'setup_cmd': 'true',
 'hooks': {'guard': 'TREADMILL_VERIF', 'enable': 'none needed: the checks parse /repo source and never run it; no hook or instrumentation commit exists',
           'baseline_off_cmd': 'cd /repo && /venv/bin/python -m pytest -ra -q -p no:cacheprovider --timeout=900 --continue-on-collection-errors',
           'source_commits': [], 'add_only': True},
 'engines': [{'name': 'sa', 'path': '/verif/sa', 'serves_properties': [c['property_id'] for c in checks],
              'kind_free_text': 'repository-specific static analysis in pure Python stdlib: module index, statement CFG with atomic condition edges, CFG x automaton product, must-facts dataflow, condition normal forms, per-property rule modules; thorough tier adds whole-package index and a mutant/refactor sensitivity self-test'}],
 'checks': checks,
 'notes': 'quick = all rules of the property, whole-package OWNER clauses included (1-3 s); thorough = the same rules with the whole package indexed (adds the record-owner clause of C09) plus the sensitivity self-test, which also replays the recorded seeded changes (must be detected) and refactorings (must stay silent) of the property as in-memory overlays; the self-test never changes the exit code. Known findings: /verif/known_findings.json (one open finding, F18, reported under C01 and C04: those checks print a KNOWN-FINDING line for it and exit 0; 33 fixed entries, which suppress nothing).',
 'not_applicable': na,
}
json.dump(m, open('/verif/MANIFEST.json', 'w'), indent=1)
print('claimed', len(checks), 'not_applicable', len(na))
