#!/venv/bin/python
"""Generate /verif/MANIFEST.json from the rule modules present under sa/rules (claims) and NOT_APPLICABLE below."""
import importlib, json, os, sys
sys.path.insert(0, '/verif')
sys.dont_write_bytecode = True
props = [json.loads(l) for l in open('/verif/properties.jsonl')]
TECH = {
 'C01': 'AST/CFG guard dominance with interpreted vector helpers, effect-pairing automaton on Server.put/remove, who-may-write over resolved classes, typestate product on the placement loop, table agreement',
 'C02': 'dataflow must-facts over CFG with interpreted vector helpers (aggregate monotonicity), must-pass-through for aggregate triggers, attribute read-set vs memo-key completeness',
 'C03': 'guard-by-cut dominance (disjunctive guards), who-may-call for the lease bypass, flag-sensitive path search for the re-validation pass, call-site keyword agreement of sibling encoders',
 'C04': 'PAIR rules on counter maintenance, normal-form comparison of the limit test, loop-exit analysis of the ancestor walk in the leaf placement',
 'C05': 'typestate product (CFG x placed/identity automaton) with path witnesses, must-pass-through release pairing, guard normal forms on IdentityGroup',
}
NOT_APPLICABLE = {}
checks = []
na = []
for p in props:
    pid = p['id']
    path = '/verif/sa/rules/%s.py' % pid.lower()
    if not os.path.isfile(path):
        na.append({'property_id': pid, 'reason': NOT_APPLICABLE.get(pid, 'check not implemented yet; planned structural clauses are in DESIGN.md section 3.%s' % pid)})
        continue
    mod = importlib.import_module('sa.rules.%s' % pid.lower())
    expl = ' '.join(mod.EXPLANATION.split())
    checks.append({
        'property_id': pid,
        'quick_cmd': './check %s --tier quick' % pid,
        'thorough_cmd': './check %s --tier thorough' % pid,
        'evidence_file': '/verif/evidence/%s.json' % pid,
        'replay_cmd_template': './check %s --replay {path}' % pid,
        'engine': 'sa',
        'level_claimed': {
            'category': 'other',
            'text': ('Static analysis (no execution of the repository): decides the structural necessary-condition clauses of %s on every path of '
                     'the current source and reports the offending construct; it does not decide the behavioural property over histories. ' % pid) + expl,
            'design_ref': 'DESIGN.md section 3, %s' % pid,
        },
        'level_note': 'Trusted base: CPython ast parser; CFG construction of sa/cfg.py (any call may raise); ' + '; '.join(getattr(mod, 'ASSUMPTIONS', [])),
        'technique': 'static analysis: ' + TECH.get(pid, 'AST/CFG rules specific to this repository'),
    })
m = {
 'version': 1,
 'setup_cmd': 'true',
 'hooks': {'guard': 'TREADMILL_VERIF', 'enable': 'none needed: the checks parse /repo source and never run it; no hook or instrumentation commit exists',
           'baseline_off_cmd': 'cd /repo && /venv/bin/python -m pytest -ra -q -p no:cacheprovider --timeout=900 --continue-on-collection-errors',
           'source_commits': [], 'add_only': True},
 'engines': [{'name': 'sa', 'path': '/verif/sa', 'serves_properties': [c['property_id'] for c in checks],
              'kind_free_text': 'repository-specific static analysis in pure Python stdlib: module index, statement CFG with atomic condition edges, CFG x automaton product, must-facts dataflow, condition normal forms, per-property rule modules; thorough tier adds whole-package index and a mutant/refactor sensitivity self-test'}],
 'checks': checks,
 'notes': 'quick = all rules of the property on the anchored modules (<1 s); thorough = same rules with the whole package indexed plus the sensitivity self-test (mutants must be detected, benign refactors must stay silent; never changes the exit code). Known findings: /verif/known_findings.json.',
 'not_applicable': na,
}
json.dump(m, open('/verif/MANIFEST.json', 'w'), indent=1)
print('claimed', len(checks), 'not_applicable', len(na))
