#!/venv/bin/python
"""Robustness sweep: rename every local variable of every function of one module (consistently, behaviour-preserving)
and run all checks on the result.  Every alarm is a recogniser bound to the spelling of a local.

usage: rename_fuzz.py [--suffix _rn] <repo-relative module path> ...     (default: every module the rule modules mention)
Writes nothing under /repo: each variant lives in a scratch worktree that is removed afterwards.
"""
import ast, glob, os, re, subprocess, sys, tempfile
from concurrent.futures import ThreadPoolExecutor

ALL = ['C%02d' % i for i in range(1, 21)]
SUFFIX = '_rn'
args = sys.argv[1:]
if args and args[0] == '--suffix':
    SUFFIX = args[1]
    args = args[2:]


def anchored_modules():
    mods = set()
    for path in glob.glob('/verif/sa/rules/*.py'):
        text = open(path).read()
        for m in re.finditer(r"'(lib/python/treadmill/[\w/]+\.py)'", text):
            mods.add(m.group(1))
        for m in re.finditer(r"'(treadmill(?:\.\w+)+)'", text):
            rel = 'lib/python/' + m.group(1).replace('.', '/')
            for cand in (rel + '.py', rel + '/__init__.py'):
                if os.path.isfile(os.path.join('/repo', cand)):
                    mods.add(cand)
    return sorted(mods)


class Renamer(ast.NodeTransformer):
    def __init__(self, names):
        self.names = names

    def visit_Name(self, node):
        if node.id in self.names:
            node.id = node.id + SUFFIX
        return node

    def visit_ExceptHandler(self, node):
        if node.name in self.names:
            node.name = node.name + SUFFIX
        return self.generic_visit(node)


def locals_of(fdef):
    stores, banned = set(), set()
    for node in ast.walk(fdef):
        if isinstance(node, ast.Name) and isinstance(node.ctx, (ast.Store, ast.Del)):
            stores.add(node.id)
        elif isinstance(node, ast.ExceptHandler) and node.name:
            stores.add(node.name)
        elif isinstance(node, (ast.Global, ast.Nonlocal)):
            banned.update(node.names)
        elif isinstance(node, ast.arg):
            banned.add(node.arg)
        elif isinstance(node, (ast.FunctionDef, ast.AsyncFunctionDef, ast.ClassDef)) and node is not fdef:
            banned.add(node.name)
        elif isinstance(node, (ast.Import, ast.ImportFrom)):
            for alias in node.names:
                banned.add((alias.asname or alias.name).split('.')[0])
    return set(n for n in stores - banned if not n.startswith('__'))


def rename_module(src):
    tree = ast.parse(src)
    count = 0
    for node in ast.walk(tree):
        body = getattr(node, 'body', None)
        if not isinstance(node, (ast.Module, ast.ClassDef)) or not isinstance(body, list):
            continue
        for item in body:
            if isinstance(item, (ast.FunctionDef, ast.AsyncFunctionDef)):
                names = locals_of(item)
                if names:
                    Renamer(names).visit(item)
                    count += len(names)
    return ast.unparse(tree), count


def one(rel):
    wt = '/tmp/sa-rn-%s' % rel.replace('/', '_')[-60:]
    subprocess.call(['git', '-C', '/repo', 'worktree', 'remove', '--force', wt], stderr=subprocess.DEVNULL)
    subprocess.check_call(['git', '-C', '/repo', 'worktree', 'add', '-q', '--detach', wt, 'HEAD'])
    try:
        path = os.path.join(wt, rel)
        new, count = rename_module(open(path).read())
        compile(new, path, 'exec')
        open(path, 'w').write(new)
        ev = tempfile.mkdtemp()
        env = dict(os.environ, TREADMILL_SA_REPO=wt, TREADMILL_SA_EVIDENCE=ev)
        out = []
        for p in ALL:
            r = subprocess.run(['/verif/check', p], env=env, stdout=subprocess.PIPE, universal_newlines=True)
            if r.returncode:
                lines = [l for l in r.stdout.splitlines() if ': [' in l or 'ANALYSIS-ERROR' in l]
                out.append('%s exit=%d\n      %s' % (p, r.returncode, '\n      '.join(l[l.find('[C'):][:220] for l in lines[:4])))
        subprocess.call(['rm', '-rf', ev])
        return rel, count, out
    finally:
        subprocess.call(['git', '-C', '/repo', 'worktree', 'remove', '--force', wt])


mods = args or anchored_modules()
with ThreadPoolExecutor(6) as ex:
    for rel, count, out in ex.map(one, mods):
        print('%-55s %4d locals renamed  %s' % (rel, count, 'ALARM\n   ' + '\n   '.join(out) if out else 'silent'))
