#!/venv/bin/python
"""One-off sensitivity probe: apply one textual replacement to a file of /repo in memory and run one property's check
on the overlay (nothing is written to /repo, nothing of /repo is executed).

usage: try_edit.py <Cxx> <rel file> <old text> <new text>
"""
import sys

sys.path.insert(0, '/verif')
sys.dont_write_bytecode = True
from sa import core, repo_root          # noqa: E402
from sa.index import Index              # noqa: E402


def main():
    prop, rel, old, new = sys.argv[1:5]
    text = open('%s/%s' % (repo_root(), rel)).read()
    if text.count(old) != 1:
        sys.exit('old text occurs %d times' % text.count(old))
    res = core.analyse(prop, 'quick', Index(repo_root(), overlay={rel: text.replace(old, new)}))
    print('exit', res.code, res.error or '')
    for ob in res.violations:
        print(' ', ob.rule, ob.construct, '|', str(ob.detail)[:160])


if __name__ == '__main__':
    main()
