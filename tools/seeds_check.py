#!/venv/bin/python
"""Run the registered checks against every confirmed seeded change (each applied to a scratch worktree of /repo HEAD).

usage: seeds_check.py [name ...]      prints one line per seed: which property checks report a violation.
"""
import json, os, subprocess, sys, tempfile
from concurrent.futures import ThreadPoolExecutor

names = sys.argv[1:] or sorted(os.listdir('/verif/seeded'))
ALL = ['C%02d' % i for i in range(1, 21)]


def one(name):
    d = os.path.join('/verif/seeded', name)
    if not os.path.isfile(os.path.join(d, 'patch.diff')):
        return name, None
    meta = json.load(open(os.path.join(d, 'meta.json')))
    wt = '/tmp/sa-seedchk-%s' % name
    subprocess.call(['git', '-C', '/repo', 'worktree', 'remove', '--force', wt], stderr=subprocess.DEVNULL)
    subprocess.check_call(['git', '-C', '/repo', 'worktree', 'add', '-q', '--detach', wt, 'HEAD'])
    try:
        r = subprocess.run(['git', '-C', wt, 'apply', os.path.join(d, 'patch.diff')])
        if r.returncode:
            return name, 'PATCH-DOES-NOT-APPLY'
        ev = tempfile.mkdtemp()
        env = dict(os.environ, TREADMILL_SA_REPO=wt, TREADMILL_SA_EVIDENCE=ev)
        hits = []
        props = [meta['property']] + [p for p in ALL if p != meta['property']]
        for p in props:
            if not os.path.isfile('/verif/sa/rules/%s.py' % p.lower()):
                continue
            r = subprocess.run(['/verif/check', p], env=env, stdout=subprocess.PIPE, universal_newlines=True)
            if r.returncode == 1:
                rules = sorted(set(l.split('[')[1].split(']')[0] for l in r.stdout.splitlines() if ': [' in l))
                hits.append('%s(%s)' % (p, ','.join(rules)))
            elif r.returncode == 2:
                hits.append('%s(ANALYSIS-ERROR)' % p)
        subprocess.call(['rm', '-rf', ev])
        return name, hits
    finally:
        subprocess.call(['git', '-C', '/repo', 'worktree', 'remove', '--force', wt])


with ThreadPoolExecutor(int(os.environ.get("SA_JOBS", "8"))) as ex:
    for name, hits in ex.map(one, names):
        if hits is None:
            continue
        print('%-10s %s' % (name, 'DETECTED by ' + ' '.join(hits) if hits else 'MISSED'))
