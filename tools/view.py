#!/venv/bin/python
"""Print the normalised view of one function (what the rules read).

usage: view.py <module> <Class.method | function>   (TREADMILL_SA_REPO selects the tree)
"""
import ast, sys
sys.path.insert(0, '/verif')
from sa import core

ctx = core.Ctx('C01', 'quick', None)
mod = ctx.index.module(sys.argv[1])
name = sys.argv[2]
if '.' in name:
    cls, meth = name.split('.')
    func = mod.classes[cls].methods[meth]
else:
    func = mod.functions[name]
print(ast.unparse(func.node))
