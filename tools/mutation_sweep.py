#!/venv/bin/python
"""Systematic sensitivity sweep: mechanical mutants of the functions the properties anchor, judged by the checks
(in-process, on in-memory overlays - nothing is written to /repo, nothing of /repo is executed).

usage: mutation_sweep.py gen <out.json> [C01 ...]      enumerate mutants of the anchored functions and run the checks of
                                                         every property anchored in the mutated file; writes one record
                                                         per mutant (detected by which rules / missed)
       mutation_sweep.py show <out.json> [--missed] [--prop C07] [--func NAME]     list records

Mutation operators (on statements that are not logging / docstrings / asserts):
  neg     negate the test of an if / while / conditional expression
  cmp     replace a comparison operator by its neighbour (< <=, > >=, == !=, is / is not, in / not in)
  bool    and <-> or
  del     delete an expression statement (a call) or an assignment (replaced by pass)
  jump    continue <-> break ;  `return X` -> `return None` ; drop an early `return` / `continue`
  const   True <-> False, integer constant +1, 0 <-> 1
  arg     swap the first two positional arguments of a call with >= 2 plain arguments
"""
import ast, copy, json, multiprocessing, os, re, sys

_HERE = os.path.dirname(os.path.dirname(os.path.abspath(__file__)))
sys.path.insert(0, _HERE)     # the snapshot this tool was started from (vp run), else /verif
sys.dont_write_bytecode = True
from sa import core, repo_root          # noqa: E402
from sa.index import Index              # noqa: E402

ROOT = repo_root()
PROPS = [json.loads(l) for l in open(os.path.join(_HERE, 'properties.jsonl')) if l.strip()]
SLACK = 25      # anchors were written against the pinned snapshot; fix: commits moved lines a little


def anchor_ranges():
    """{rel file: [(prop id, lo, hi)]} from the mechanism / state anchors."""
    out = {}
    for prop in PROPS:
        anchors = prop.get('anchors', {})
        for item in anchors.get('mechanism', []) + anchors.get('state', []):
            where = item.get('where', '')
            cur = None
            for part in re.split(r'[;,]\s*', where):
                m = re.match(r'^\s*(?:(\S+\.py):)?(\d+)(?:-(\d+))?\s*$', part)
                if not m:
                    continue
                if m.group(1):
                    cur = m.group(1)
                if cur is None:
                    continue
                lo = int(m.group(2))
                hi = int(m.group(3) or m.group(2))
                out.setdefault(cur, []).append((prop['id'], lo, hi))
    return out


def is_noise(stmt):
    if isinstance(stmt, ast.Expr) and isinstance(stmt.value, ast.Constant):
        return True
    if isinstance(stmt, ast.Assert):
        return True
    if isinstance(stmt, ast.Expr) and isinstance(stmt.value, ast.Call):
        txt = ast.unparse(stmt.value.func)
        if txt.startswith('_LOGGER.') or txt.startswith('logging.') or txt in ('print',):
            return True
    return False


FLIP = {ast.Lt: ast.LtE, ast.LtE: ast.Lt, ast.Gt: ast.GtE, ast.GtE: ast.Gt, ast.Eq: ast.NotEq, ast.NotEq: ast.Eq,
        ast.Is: ast.IsNot, ast.IsNot: ast.Is, ast.In: ast.NotIn, ast.NotIn: ast.In}


def sites_of(fdef):
    """[(operator, path description, mutate(node_copy_root) )] - each mutate works on a deep copy located by index."""
    nodes = list(ast.walk(fdef))
    out = []
    noise = set()
    for n in nodes:
        if isinstance(n, ast.stmt) and is_noise(n):
            for sub in ast.walk(n):
                noise.add(id(sub))
    for idx, n in enumerate(nodes):
        if id(n) in noise:
            continue
        line = getattr(n, 'lineno', 0)
        if isinstance(n, (ast.If, ast.While, ast.IfExp)):
            out.append(('neg', idx, line, ast.unparse(n.test)[:70]))
        if isinstance(n, ast.Compare) and len(n.ops) == 1 and type(n.ops[0]) in FLIP:
            out.append(('cmp', idx, line, ast.unparse(n)[:70]))
        if isinstance(n, ast.BoolOp):
            out.append(('bool', idx, line, ast.unparse(n)[:70]))
        if isinstance(n, (ast.Expr, ast.Assign, ast.AugAssign)) and not isinstance(getattr(n, 'value', None),
                                                                                   ast.Constant):
            out.append(('del', idx, line, ast.unparse(n)[:70]))
        if isinstance(n, (ast.Continue, ast.Break)):
            out.append(('jump', idx, line, type(n).__name__))
        if isinstance(n, ast.Return) and n.value is not None and not (
                isinstance(n.value, ast.Constant) and n.value.value is None):
            out.append(('jump', idx, line, ast.unparse(n)[:70]))
        if isinstance(n, ast.Constant) and (isinstance(n.value, bool) or (
                isinstance(n.value, int) and not isinstance(n.value, bool) and abs(n.value) < 10 ** 6)):
            out.append(('const', idx, line, repr(n.value)))
        if isinstance(n, ast.Call) and len(n.args) >= 2 and not n.keywords and all(
                isinstance(a, (ast.Name, ast.Attribute, ast.Subscript)) for a in n.args[:2]) and \
                ast.unparse(n.args[0]) != ast.unparse(n.args[1]):
            out.append(('arg', idx, line, ast.unparse(n)[:70]))
    return out


def apply(fdef, op, idx):
    new = copy.deepcopy(fdef)
    n = list(ast.walk(new))[idx]
    if op == 'neg':
        n.test = ast.UnaryOp(op=ast.Not(), operand=n.test)
    elif op == 'cmp':
        n.ops = [FLIP[type(n.ops[0])]()]
    elif op == 'bool':
        n.op = ast.Or() if isinstance(n.op, ast.And) else ast.And()
    elif op == 'del':
        n.__class__ = ast.Pass
        n._fields = ()
    elif op == 'jump':
        if isinstance(n, ast.Continue):
            n.__class__ = ast.Break
        elif isinstance(n, ast.Break):
            n.__class__ = ast.Continue
        else:
            n.value = ast.Constant(value=None)
    elif op == 'const':
        if isinstance(n.value, bool):
            n.value = not n.value
        else:
            n.value = n.value + 1
    elif op == 'arg':
        n.args[0], n.args[1] = n.args[1], n.args[0]
    ast.fix_missing_locations(new)
    return new


def functions_in(tree):
    out = []
    for node in ast.walk(tree):
        if isinstance(node, (ast.FunctionDef, ast.AsyncFunctionDef)):
            out.append(node)
    # only outermost functions (nested ones are mutated as part of their parent)
    inner = set()
    for f in out:
        for sub in ast.walk(f):
            if sub is not f and isinstance(sub, (ast.FunctionDef, ast.AsyncFunctionDef)):
                inner.add(id(sub))
    return [f for f in out if id(f) not in inner]


def enumerate_mutants(only=None):
    work = []
    for rel, ranges in sorted(anchor_ranges().items()):
        path = os.path.join(ROOT, rel)
        if not os.path.isfile(path):
            continue
        src = open(path).read()
        tree = ast.parse(src)
        props_of_file = sorted(set(p for p, _l, _h in ranges))
        for fdef in functions_in(tree):
            owners = sorted(set(p for p, lo, hi in ranges
                                if fdef.lineno <= hi + SLACK and (fdef.end_lineno or fdef.lineno) >= lo - SLACK))
            if not owners or (only and not set(owners) & set(only)):
                continue
            for op, idx, line, text in sites_of(fdef):
                work.append({'file': rel, 'func': fdef.name, 'func_line': fdef.lineno, 'op': op, 'idx': idx,
                             'line': line, 'text': text, 'owners': owners, 'file_props': props_of_file})
    return work


_SRC = {}


def run_one(rec):
    rel = rec['file']
    if rel not in _SRC:
        src = open(os.path.join(ROOT, rel)).read()
        _SRC[rel] = (src, ast.parse(src))
    src, tree = _SRC[rel]
    tree = copy.deepcopy(tree)
    target = [f for f in functions_in(tree) if f.name == rec['func'] and f.lineno == rec['func_line']][0]
    new = apply(target, rec['op'], rec['idx'])
    target.__dict__.update(new.__dict__)
    try:
        text = ast.unparse(tree)
        compile(text, rel, 'exec', dont_inherit=True)
    except Exception as err:       # pylint: disable=broad-except
        rec['verdict'] = 'invalid'
        rec['why'] = str(err)[:80]
        return rec
    rec['mutated'] = ast.unparse(list(ast.walk(new))[rec['idx']])[:90] if rec['op'] != 'del' else 'pass'
    hits = {}
    for prop in rec['file_props']:
        try:
            res = core.analyse(prop, 'quick', Index(ROOT, overlay={rel: text}))
        except Exception as err:   # pylint: disable=broad-except
            hits[prop] = 'crash: %s' % str(err)[:60]
            continue
        if res.code == 1:
            hits[prop] = ' '.join(sorted(set(o.rule for o in res.violations)))
        elif res.code == 2:
            hits[prop] = 'exit2'
    rec['hits'] = hits
    rec['verdict'] = 'detected' if any(v != 'exit2' and not v.startswith('crash') for v in hits.values()) else (
        'exit2' if hits else 'missed')
    return rec


def main():
    cmd = sys.argv[1]
    if cmd == 'gen':
        out = sys.argv[2]
        only = sys.argv[3:] or None
        work = enumerate_mutants(only)
        print('%d mutants over %d functions' % (len(work), len(set((w['file'], w['func'], w['func_line']) for w in work))))
        ctxm = multiprocessing.get_context('fork')
        with ctxm.Pool(int(os.environ.get("SWEEP_PROCS", "14"))) as pool:
            results = pool.map(run_one, work, chunksize=4)
        json.dump(results, open(out, 'w'), indent=0)
        tally = {}
        for r in results:
            key = (r['op'], r['verdict'])
            tally[key] = tally.get(key, 0) + 1
        for op in sorted(set(k[0] for k in tally)):
            row = {v: tally.get((op, v), 0) for v in ('detected', 'exit2', 'missed', 'invalid')}
            print('%-6s %s' % (op, row))
    elif cmd == 'show':
        recs = json.load(open(sys.argv[2]))
        args = sys.argv[3:]
        for r in recs:
            if '--missed' in args and r['verdict'] != 'missed':
                continue
            if '--prop' in args and args[args.index('--prop') + 1] not in r['owners']:
                continue
            if '--func' in args and args[args.index('--func') + 1] != r['func']:
                continue
            print('%-8s %-4s %s:%d %s  [%s] -> [%s]  %s' % (r['verdict'], r['op'], r['file'].split('/')[-1], r['line'],
                                                         r['func'], r['text'], r.get('mutated', ''),
                                                         r.get('hits', '')))


if __name__ == '__main__':
    main()
