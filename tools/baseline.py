#!/venv/bin/python
"""Run the pinned baseline in a tree (default /repo) and report stable_pass tests that no longer pass."""
import json, subprocess, sys, tempfile, os
import xml.etree.ElementTree as ET
tree = sys.argv[1] if len(sys.argv) > 1 else '/repo'
extra = sys.argv[2:]
out = tempfile.mktemp(suffix='.xml')
cmd = ['/venv/bin/python', '-m', 'pytest', '-q', '-p', 'no:cacheprovider', '--timeout=900',
       '--continue-on-collection-errors', '--junitxml=' + out, '-n', '8', '--dist', 'loadfile'] + extra
env = dict(os.environ); env['PYTHONPATH'] = os.path.join(tree, 'lib/python')
p = subprocess.run(cmd, cwd=tree, stdout=subprocess.PIPE, stderr=subprocess.STDOUT, env=env)
sp = set(json.load(open('/root/.vp/BASELINE.json'))['stable_pass'])
ok = set()
for tc in ET.parse(out).iter('testcase'):
    if not list(tc):
        ok.add(tc.get('classname') + '::' + tc.get('name'))
os.unlink(out)
missing = sorted(sp - ok)
print('stable_pass=%d passing_now=%d lost=%d' % (len(sp), len(ok), len(missing)))
for m in missing[:40]:
    print('LOST', m)
sys.exit(1 if missing else 0)
