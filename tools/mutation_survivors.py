#!/venv/bin/python
"""Second stage of the mutation sweep: which of the mutants the checks missed also survive the tests that exercise the
mutated module?  (A mutant the suite kills is not the kind of change the checks are for.)  Uses scratch worktrees of
/repo under /tmp, removed afterwards; runs the repo's tests, so this is a measuring tool, never part of a check.

usage: mutation_survivors.py <sweep.json> <out.json> [--jobs 8]
"""
import ast, copy, glob, json, os, subprocess, sys, multiprocessing

sys.path.insert(0, '/verif/tools')
import importlib.util
spec = importlib.util.spec_from_file_location('ms', '/verif/tools/mutation_sweep.py')
ms = importlib.util.module_from_spec(spec)
sys.argv_backup = sys.argv
spec.loader.exec_module(ms)

TESTS = '/repo/lib/python/treadmill/tests'
STABLE = set(json.load(open('/root/.vp/BASELINE.json'))['stable_pass'])


def tests_for(rel):
    mod = rel[len('lib/python/'):-3].replace('/', '.')
    if mod.endswith('.__init__'):
        mod = mod[:-9]
    base = mod.split('.')[-1].lstrip('_')
    parent = '.'.join(mod.split('.')[:-1])
    pats = [mod, 'from %s import %s' % (parent, mod.split('.')[-1])]
    hits = []
    for path in glob.glob(TESTS + '/**/*_test.py', recursive=True):
        text = open(path).read()
        score = 0
        if os.path.basename(path).startswith(base + '_') or os.path.basename(path) == base + '_test.py':
            score += 10
        if any(p in text for p in pats):
            score += 5
        if score:
            hits.append((score, path))
    hits.sort(reverse=True)
    return [p for _s, p in hits[:6]]


def init_worker():
    ident = multiprocessing.current_process()._identity[0]
    global WT
    WT = '/tmp/sa-surv-%d' % ident
    subprocess.call(['git', '-C', '/repo', 'worktree', 'remove', '--force', WT], stderr=subprocess.DEVNULL)
    subprocess.check_call(['git', '-C', '/repo', 'worktree', 'add', '-q', '--detach', WT, 'HEAD'])


def run(rec):
    rel = rec['file']
    src = open(os.path.join('/repo', rel)).read()
    tree = ast.parse(src)
    target = [f for f in ms.functions_in(tree) if f.name == rec['func'] and f.lineno == rec['func_line']][0]
    new = ms.apply(target, rec['op'], rec['idx'])
    target.__dict__.update(new.__dict__)
    text = ast.unparse(tree)
    path = os.path.join(WT, rel)
    open(path, 'w').write(text)
    tests = [WT + t[len('/repo'):] for t in tests_for(rel)]
    try:
        if not tests:
            rec['tests'] = 'none'
            rec['survives'] = None
            return rec
        env = dict(os.environ, PYTHONPATH=os.path.join(WT, 'lib/python'), TMPDIR='/tmp/sa-surv-tmp-%s' % os.getpid())
        os.makedirs(env['TMPDIR'], exist_ok=True)
        xml = os.path.join(env['TMPDIR'], 'junit.xml')
        p = subprocess.run(['/venv/bin/python', '-m', 'pytest', '-q', '-p', 'no:cacheprovider', '--timeout=120',
                            '--continue-on-collection-errors', '--junitxml=' + xml] + tests, cwd=WT,
                           stdout=subprocess.PIPE, stderr=subprocess.STDOUT, env=env, universal_newlines=True,
                           timeout=900)
        rec['tests'] = [os.path.basename(t) for t in tests]
        import xml.etree.ElementTree as ET
        ok, seen = set(), set()
        try:
            for tc in ET.parse(xml).iter('testcase'):
                name = tc.get('classname') + '::' + tc.get('name')
                seen.add(name)
                if not list(tc):
                    ok.add(name)
        except Exception:           # pylint: disable=broad-except
            pass
        # judged against the pinned list of stable tests: a mutant is killed when a stable test of the files run
        # no longer passes (tests that fail on the clean tree do not count)
        mods = set(os.path.splitext(os.path.relpath(t, WT))[0].replace('/', '.')
                   for t in tests)
        mine = set(n for n in STABLE if n.split('::')[0].rsplit('.', 1)[0] in mods or
                   n.split('::')[0] in mods)
        lost = sorted(mine - ok)
        rec['stable_run'] = len(mine)
        rec['survives'] = not lost
        if lost:
            rec['killed_by'] = lost[0][-110:]
    except subprocess.TimeoutExpired:
        rec['survives'] = False
        rec['killed_by'] = 'timeout'
    finally:
        subprocess.call(['git', '-C', WT, 'checkout', '-q', '--', rel])
    return rec


def main():
    recs = [r for r in json.load(open(sys.argv[1])) if r['verdict'] == 'missed']
    jobs = int(sys.argv[sys.argv.index('--jobs') + 1]) if '--jobs' in sys.argv else 8
    print('%d missed mutants to run against the tests' % len(recs))
    ctxm = multiprocessing.get_context('fork')
    with ctxm.Pool(jobs, initializer=init_worker) as pool:
        out = pool.map(run, recs, chunksize=2)
    json.dump(out, open(sys.argv[2], 'w'), indent=0)
    surv = [r for r in out if r.get('survives')]
    print('survivors: %d of %d (no tests found: %d)' % (len(surv), len(out), sum(1 for r in out if r.get('survives') is None)))
    for i in range(1, jobs + 1):
        subprocess.call(['git', '-C', '/repo', 'worktree', 'remove', '--force', '/tmp/sa-surv-%d' % i],
                        stderr=subprocess.DEVNULL)


if __name__ == '__main__':
    main()
