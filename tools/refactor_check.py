#!/venv/bin/python
"""Run every check against behaviour-preserving refactorings (diffs) and report alarms (= false alarms to fix).
With SA_SELECT=1 only the checks that analyse a function of a module the diff touches are run (modules taken from
the committed evidence files) - a third of the work, for the gate over the whole corpus.

usage: refactor_check.py <dir-with-diffs> [...]   each *.diff is applied alone to a scratch worktree of /repo HEAD.
"""
import glob, os, subprocess, sys, tempfile
from concurrent.futures import ThreadPoolExecutor

ALL = ['C%02d' % i for i in range(1, 21)]
SELECT = os.environ.get('SA_SELECT') == '1'
MODS = {}
if SELECT:
    import json, re
    for p in ALL:
        ev = json.load(open('/verif/evidence/%s.json' % p))
        MODS[p] = set(f.split(':')[0] for f in ev['coverage']['functions_analysed'])


def wanted(diff):
    if os.environ.get('SA_ONLY'):
        return os.environ['SA_ONLY'].split(',')
    if not SELECT:
        return ALL
    touched = set()
    for line in open(diff):
        m = re.match(r'^\+\+\+ b/lib/python/(.*)\.py', line)
        if m:
            mod = m.group(1).replace('/', '.')
            touched.add(mod[:-9] if mod.endswith('.__init__') else mod)
    return [p for p in ALL if MODS[p] & touched] or ALL
diffs = []
for d in sys.argv[1:]:
    diffs += sorted(glob.glob(os.path.join(d, '*.diff'))) if os.path.isdir(d) else ([d] if d.endswith('.diff') else [])


def one(diff):
    tag = diff.replace('/', '_')
    wt = '/tmp/sa-refchk-%s' % tag[-60:]
    subprocess.call(['git', '-C', '/repo', 'worktree', 'remove', '--force', wt], stderr=subprocess.DEVNULL)
    subprocess.check_call(['git', '-C', '/repo', 'worktree', 'add', '-q', '--detach', wt, 'HEAD'])
    try:
        r = subprocess.run(['git', '-C', wt, 'apply', diff], stderr=subprocess.PIPE)
        if r.returncode:
            return diff, 'PATCH-DOES-NOT-APPLY'
        ev = tempfile.mkdtemp()
        env = dict(os.environ, TREADMILL_SA_REPO=wt, TREADMILL_SA_EVIDENCE=ev)
        out = []
        for p in wanted(diff):
            r = subprocess.run(['/verif/check', p], env=env, stdout=subprocess.PIPE, universal_newlines=True)
            if r.returncode:
                lines = [l for l in r.stdout.splitlines() if ': [' in l or 'ANALYSIS-ERROR' in l]
                out.append('%s exit=%d\n      %s' % (p, r.returncode, '\n      '.join(l[l.find('[C'):][:200] for l in lines[:3])))
        subprocess.call(['rm', '-rf', ev])
        return diff, out
    finally:
        subprocess.call(['git', '-C', '/repo', 'worktree', 'remove', '--force', wt])


with ThreadPoolExecutor(int(os.environ.get("SA_JOBS", "8"))) as ex:
    for diff, out in ex.map(one, diffs):
        if out == 'PATCH-DOES-NOT-APPLY':
            print('%-40s PATCH-DOES-NOT-APPLY' % diff)
        elif out:
            print('%-40s ALARM\n   %s' % (diff, '\n   '.join(out)))
        else:
            print('%-40s silent' % diff)
