"""Triage replay (not a check): reservation update is validated against the
*create* verb schema, which does not require 'partition'; the capacity check
then subscripts rsrc['partition']."""
import sys
sys.path.insert(0,'/repo/lib/python')
import mock, inspect, decorator
decorator.getargspec = inspect.getfullargspec  # env shim: decorator 5 dropped getargspec
from treadmill.api import allocation
with mock.patch('treadmill.context.AdminContext.conn', mock.Mock()), \
     mock.patch('treadmill.api.allocation._admin_cell_alloc'), \
     mock.patch('treadmill.api.allocation._admin_partition'):
    api = allocation.API()
    try:
        api.reservation.update('tenant/alloc/cell', {'memory': '1G', 'cpu': '10%', 'disk': '1G'})
        print('accepted')
    except Exception as err:
        print(type(err).__name__, err)
