"""Triage replay (not a check) for finding F18, recorded and NOT repaired (known_findings.json).

History: an instance runs on server S of bucket rack:1; the bucket is taken out of the cell ('cell' event: Loader.load_cell resets the
children and adds back only the listed buckets); the next cycle finds the instance on a server that is no longer in the cell and
Cell._fix_invalid_placements un-places it by clearing app.server alone - the detached Server object is not reachable from the cell, so
nothing takes the instance out of S.apps or gives its demand and affinity count back; the instance is placed on T.  When the bucket is
added to the cell again, S comes back still listing the instance: two servers list one instance, S reports capacity - demand as free with
nothing placed on it, the cell's affinity counter counts the instance twice (C01: "the instance-to-server and server-to-instance views
agree exactly", "free capacity equals capacity minus that sum").  A later 'servers' event that replaces S (reload_server -> remove_server
-> S.remove_all()) then clears app.server of the instance that lives on T.

Why it is recorded rather than repaired: the repair is not local.  The validation pass cannot reach the detached server object; taking the
instances off at the time the bucket leaves would un-place them outside a cycle and the publication (before/after snapshots of a cycle)
would never delete their records; purging stale entries when the bucket returns needs a way to drop an entry without touching the
instance (Server.remove resets the instance's fields) and a second staleness test for instances deleted meanwhile.  A maintainer would
choose between those designs; none is a two-line patch."""
import sys, os
sys.path.insert(0, os.environ.get('TM_LIB', '/repo/lib/python'))
from treadmill import scheduler as s
s.DIMENSION_COUNT = 3
cell = s.Cell('c')
b1 = s.Bucket('rack:1', level='rack'); b2 = s.Bucket('rack:2', level='rack')
cell.add_node(b1); cell.add_node(b2)
S = s.Server('S', [10, 10, 10], valid_until=10**12, label='_default'); b1.add_node(S)
T = s.Server('T', [10, 10, 10], valid_until=10**12, label='_default'); b2.add_node(T)
alloc = cell.partitions['_default'].allocation
A = s.Application('p.a#1', 10, [4, 4, 4], 'A')
cell.add_app(alloc, A)
# make sure A lands on S first: T down for the first cycle
T.state = s.State.down
cell.schedule(); print('cycle 1: A on', A.server)
T.state = s.State.up
# the bucket of S leaves the cell (Loader.load_cell: reset_children, then only the listed buckets are added back)
cell.remove_node(b1)
print('cycle 2 placements:', cell.schedule()); print('A on', A.server, '| S.apps', list(S.apps), 'S.free', list(S.free_capacity), '| T.apps', list(T.apps))
# the bucket comes back
cell.add_node(b1)
both = [n for n in (S, T) if A.name in n.apps]
print('after re-adding the bucket: A listed by', [n.name for n in both], '; S free capacity', list(S.free_capacity), '(capacity 10, nothing placed on S); cell affinity counter', dict(cell.affinity_counters))
# a 'servers' event replaces S: Loader.reload_server -> remove_server -> S.remove_all()
S.remove_all()
print('after S.remove_all(): A.server =', A.server, 'while T.apps =', list(T.apps))
bad = len(both) > 1 or A.server != 'T'
print('VIOLATION' if bad else 'OK'); sys.exit(1 if bad else 0)
