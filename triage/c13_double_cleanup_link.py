import sys, os, tempfile, shutil
sys.path.insert(0,'/repo/lib/python')
import mock
from treadmill import appcfgmgr
root = tempfile.mkdtemp()
for d in ('apps','cache','running','cleanup'): os.makedirs(os.path.join(root,d))
with mock.patch('treadmill.appenv.AppEnvironment') as AE:
    env = AE.return_value
    env.apps_dir=os.path.join(root,'apps'); env.cache_dir=os.path.join(root,'cache')
    env.running_dir=os.path.join(root,'running'); env.cleanup_dir=os.path.join(root,'cleanup')
    mgr = appcfgmgr.AppCfgMgr(root, 'linux')
    appcfgmgr.AppCfgMgr._refresh_supervisor = lambda self: None
    cont = 'proid.app-0000000001-abcdefghijklm'
    os.makedirs(os.path.join(env.apps_dir, cont, 'data'))
    os.symlink(os.path.join(env.apps_dir, cont), os.path.join(env.running_dir, 'proid.app#0000000001'))
    # cache entry deleted -> terminate
    mgr._terminate('proid.app#0000000001')
    print('after terminate:', os.listdir(env.running_dir), os.listdir(env.cleanup_dir))
    # manager restart / ready flip -> resync while cleanup still pending
    mgr._synchronize()
    print('after sync:', os.listdir(env.running_dir), {l: os.readlink(os.path.join(env.cleanup_dir,l)) for l in os.listdir(env.cleanup_dir)})
shutil.rmtree(root)
