"""Triage replay (not a check): Master.init_schedule publishes server by server
(delete stale, then create missing, per server). If the start-up cycle moves an
instance from S1 to S2 and S2 is visited first, a master stop after S2's create
leaves records under both servers."""
import os, sys; sys.path.insert(0, os.path.dirname(os.path.abspath(__file__))); sys.path.insert(0,'/repo/lib/python')
import mock
from membe import Mem
from treadmill import scheduler
from treadmill.scheduler import master
scheduler.DIMENSION_COUNT=3
class Crash(Exception): pass
def recs(b): return sorted(k for k in b.d if k.startswith('/placement/') and k.count('/')==3)
for first_down in ('s1','s2'):
    b=Mem(); now=[100000.0]
    with mock.patch('time.time', lambda: now[0]):
        b.clock=now
        b.put('/buckets/pod:1', {'parent': None}); b.put('/buckets/rack:1', {'parent':'pod:1'}); b.put('/cell/pod:1', {})
        for s in ('s1','s2'):
            b.put('/servers/'+s, {'parent':'rack:1','memory':'16G','disk':'128G','cpu':'400%','up_since':now[0]})
        b.put('/server.presence/'+first_down, {'valid_until': now[0]+30*86400})
        b.put('/scheduled/p.a#0000000001', {'memory':'1G','disk':'1G','cpu':'10%','affinity':'p.a'})
        m=master.Master(b,'cell'); m.create_rootns(); m.load_model(); m.init_schedule()
        src=m.cell.apps['p.a#0000000001'].server; dst='s2' if src=='s1' else 's1'
        # master stops; src goes down, dst comes up; retention 0 => moved in the start-up cycle
        b.delete('/server.presence/'+src); b.put('/server.presence/'+dst, {'valid_until': now[0]+30*86400}); now[0]+=60
        m2=master.Master(b,'cell'); m2.load_model()
        orig_put=b.put
        def crashing_put(p,v):
            orig_put(p,v)
            if p.startswith('/placement/') and p.count('/')==3: raise Crash()
        b.put=crashing_put
        try:
            m2.init_schedule(); print(src,'->',dst,'no crash point hit', recs(b))
        except Crash:
            print(src,'->',dst,'records at the crash point:', recs(b))
