import sys
sys.path.insert(0,'/repo/lib/python')
from treadmill import scheduler as s
s.DIMENSION_COUNT = 3
cell = s.Cell('c')
rack = s.Bucket('rack:1', level='rack'); cell.add_node(rack)
srv = s.Server('s1', [10,10,10], valid_until=10**12, label='_default', traits=0); rack.add_node(srv)
alloc = cell.partitions['_default'].allocation
a = s.Application('p.a#1', 10, [2,2,2], 'aff', traits=4)   # needs trait no server has
b = s.Application('p.b#2', 5, [3,3,3], 'aff')              # no traits, fits
for app in (a,b): cell.add_app(alloc, app)
cell.schedule()
for app in (a,b): print(app.name, app.server)
cell.schedule()
for app in (a,b): print(app.name, app.server)
