"""Replay kept for honesty (not a check, and NOT reported by any planned static
rule): an identity group shrunk and grown again between two cycles re-offers
identities that placed instances still hold. The defect depends on the history
of count changes, not on the shape of any one routine; DESIGN.md lists it as
an example of what the C05 clauses do not decide."""
import sys
sys.path.insert(0,'/repo/lib/python')
from treadmill import scheduler as s
s.DIMENSION_COUNT = 3
cell = s.Cell('c')
rack = s.Bucket('rack:1', level='rack'); cell.add_node(rack)
s1 = s.Server('s1', [100,100,100], valid_until=10**12, label='_default'); rack.add_node(s1)
cell.configure_identity_group('g', 3)
alloc = cell.partitions['_default'].allocation
apps=[s.Application('p.a#%d'%i, 10, [1,1,1], 'A', identity_group='g') for i in range(3)]
for a in apps: cell.add_app(alloc, a)
cell.schedule(); print([(a.name,a.identity) for a in apps], cell.identity_groups['g'].available)
cell.configure_identity_group('g', 1); cell.configure_identity_group('g', 3)
new=[s.Application('p.a#%d'%i, 10, [1,1,1], 'A', identity_group='g') for i in range(3,5)]
for a in new: cell.add_app(alloc, a)
cell.schedule(); print([(a.name,a.server,a.identity) for a in apps+new])
