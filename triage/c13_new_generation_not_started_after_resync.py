"""Triage replay (not a check): the cache entry of an instance was re-created
(new generation) while the manager was not processing events. The resync
terminates the old container but also drops the entry from the to-configure
set, so the placed instance is left without a running link."""
import sys, os, tempfile, shutil, time
sys.path.insert(0,'/repo/lib/python')
import mock
from treadmill import appcfgmgr, appcfg
root = tempfile.mkdtemp()
for d in ('apps','cache','running','cleanup'): os.makedirs(os.path.join(root,d))
configured = []
with mock.patch('treadmill.appenv.AppEnvironment') as AE:
    env = AE.return_value
    env.apps_dir=os.path.join(root,'apps'); env.cache_dir=os.path.join(root,'cache')
    env.running_dir=os.path.join(root,'running'); env.cleanup_dir=os.path.join(root,'cleanup')
    appcfgmgr.AppCfgMgr._refresh_supervisor = lambda self: None
    appcfgmgr.AppCfgMgr._configure = lambda self, name: configured.append(name) or True
    mgr = appcfgmgr.AppCfgMgr(root, 'linux')
    inst = 'proid.app#0000000001'
    old = 'proid.app-0000000001-abcdefghijklm'           # old generation, running
    os.makedirs(os.path.join(env.apps_dir, old, 'data'))
    os.symlink(os.path.join(env.apps_dir, old), os.path.join(env.running_dir, inst))
    open(os.path.join(env.cache_dir, inst), 'w').close()   # re-created cache entry => different unique name
    print('cache unique name:', appcfg.eventfile_unique_name(os.path.join(env.cache_dir, inst)), 'running:', old)
    mgr._synchronize()
    print('running after sync:', os.listdir(env.running_dir), 'cleanup:', os.listdir(env.cleanup_dir), 'configured:', configured, 'cache:', os.listdir(env.cache_dir))
shutil.rmtree(root)
