import sys
sys.path.insert(0,'/repo/lib/python')
from treadmill import scheduler as s
s.DIMENSION_COUNT = 3
cell = s.Cell('c')
rack = s.Bucket('rack:1', level='rack'); cell.add_node(rack)
srv = s.Server('s1', [10,10,10], valid_until=10**12, label='_default'); rack.add_node(srv)
cell.configure_identity_group('g', 1)
alloc = cell.partitions['_default'].allocation
# A: demand 20 (doesn't fit), B: demand 30 (infeasible after A fails) , same shape constraints
a = s.Application('p.a#1', 10, [20,20,20], 'aff', identity_group='g')
b = s.Application('p.b#2', 5, [30,30,30], 'aff', identity_group='g')
c = s.Application('p.c#3', 1, [5,5,5], 'aff', identity_group='g')
for app in (a,b,c): cell.add_app(alloc, app)
cell.schedule()
for app in (a,b,c): print(app.name, app.server, app.identity)
print('available', cell.identity_groups['g'].available)
