"""Triage replay (not a check): an allocation is loaded with a rank adjustment; the operator then removes the adjustment from the
allocation's configuration and the master reloads allocations (the 'allocations' event path, Loader.load_allocations on the same
cell).  Allocation.update() keeps the previous rank_adjustment when the new value is None, so the running master keeps boosting the
allocation's reserved instances by an adjustment the configuration no longer has - the queue differs from the one a freshly started
master computes from the same stored data (C06: ... gets the allocation's boosted rank = rank minus rank adjustment)."""
import sys, os
sys.path.insert(0, os.environ.get('TM_LIB', '/repo/lib/python'))
sys.path.insert(0, os.path.dirname(os.path.abspath(__file__)))
import numpy as np
from treadmill import scheduler
scheduler.DIMENSION_COUNT = 3
a = scheduler.Allocation([10, 10, 10], rank=100)
a.update([10, 10, 10], 100, 20)          # configured: rank 100, adjustment 20
before = a.rank_adjustment
a.update([10, 10, 10], 100, None)        # reload: adjustment removed from the configuration
fresh = scheduler.Allocation([10, 10, 10], rank=100)
fresh.update([10, 10, 10], 100, None)    # what a restarted master builds from the same data
print('adjustment configured 20 -> removed; running master keeps', a.rank_adjustment, '; restarted master has', fresh.rank_adjustment)
app = scheduler.Application('x#1', 10, np.array([1, 1, 1]), 'x')
a.add(app); app2 = scheduler.Application('x#1', 10, np.array([1, 1, 1]), 'x'); fresh.add(app2)
r1 = [e[0] for e in a.utilization_queue(np.array([100., 100., 100.]))]
r2 = [e[0] for e in fresh.utilization_queue(np.array([100., 100., 100.]))]
print('rank of the reserved instance: running master', r1, 'restarted master', r2)
ok = r1 == r2
print('OK' if ok else 'VIOLATION: the boosted rank uses an adjustment the allocation no longer has')
sys.exit(0 if ok else 1)
