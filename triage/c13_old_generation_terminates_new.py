"""Triage replay (not a check): two generations of one instance are configured (old one in cleanup, new one running and named by the
cache).  A resync that visits the old container sees the instance's running link, finds that the cache names another container and
terminates - the NEW, unchanged generation."""
import sys, os, tempfile, shutil
sys.path.insert(0, os.environ.get('TM_LIB', '/repo/lib/python'))
import mock
from treadmill import appcfgmgr, appcfg
root = tempfile.mkdtemp()
for d in ('apps','cache','running','cleanup'): os.makedirs(os.path.join(root,d))
configured = []
res = {}
with mock.patch('treadmill.appenv.AppEnvironment') as AE:
    env = AE.return_value
    env.apps_dir=os.path.join(root,'apps'); env.cache_dir=os.path.join(root,'cache')
    env.running_dir=os.path.join(root,'running'); env.cleanup_dir=os.path.join(root,'cleanup')
    appcfgmgr.AppCfgMgr._refresh_supervisor = lambda self: None
    appcfgmgr.AppCfgMgr._configure = lambda self, name: configured.append(name) or True
    mgr = appcfgmgr.AppCfgMgr(root, 'linux')
    inst = 'proid.app#0000000001'
    open(os.path.join(env.cache_dir, inst), 'w').close()
    new = appcfg.eventfile_unique_name(os.path.join(env.cache_dir, inst))   # generation named by the cache
    old = 'proid.app-0000000001-abcdefghijklm'
    for c in (old, new): os.makedirs(os.path.join(env.apps_dir, c, 'data'))
    os.symlink(os.path.join(env.apps_dir, new), os.path.join(env.running_dir, inst))   # new generation runs
    os.symlink(os.path.join(env.apps_dir, old), os.path.join(env.cleanup_dir, old))    # old one being cleaned up
    mgr._synchronize()
    running = {n: os.path.basename(os.readlink(os.path.join(env.running_dir, n))) for n in os.listdir(env.running_dir)}
    print('running after sync:', running, 'cleanup:', sorted(os.listdir(env.cleanup_dir)), 'configured again:', configured)
    ok = running.get(inst) == new and not configured
shutil.rmtree(root)
print('OK' if ok else 'VIOLATION: the unchanged running generation was terminated')
sys.exit(0 if ok else 1)
