"""Triage replay (not a check): an instance un-placed between cycles keeps its
identity; if it is blacklisted (or over its cap) in the same window, the cycle
exits early without releasing it."""
import sys
sys.path.insert(0,'/repo/lib/python')
from treadmill import scheduler as s
s.DIMENSION_COUNT = 3
cell = s.Cell('c')
rack = s.Bucket('rack:1', level='rack'); cell.add_node(rack)
s1 = s.Server('s1', [10,10,10], valid_until=10**12, label='_default'); rack.add_node(s1)
cell.configure_identity_group('g', 1)
alloc = cell.partitions['_default'].allocation
a = s.Application('p.a#1', 10, [2,2,2], 'A', identity_group='g')
b = s.Application('p.b#2', 5, [2,2,2], 'B', identity_group='g')
cell.add_app(alloc, a)
cell.schedule(); print('cycle1', a.server, a.identity)
# between cycles: server reloaded (Loader.remove_server -> remove_all) and app blacklisted
s1.remove_all(); a.blacklisted = True
cell.add_app(alloc, b)
cell.schedule()
print('cycle2', (a.name, a.server, a.identity), (b.name, b.server, b.identity))
cell.schedule()
print('cycle3', (a.name, a.server, a.identity), (b.name, b.server, b.identity))
