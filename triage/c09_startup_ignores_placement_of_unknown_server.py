"""Triage replay (not a check): start-up reconciliation iterates the servers of
the model only. A placement record under a server that is no longer configured
survives start-up while the instance is placed (and published) elsewhere."""
import os, sys; sys.path.insert(0, os.path.dirname(os.path.abspath(__file__))); sys.path.insert(0,'/repo/lib/python')
import mock
from membe import Mem
from treadmill import scheduler
from treadmill.scheduler import master
scheduler.DIMENSION_COUNT=3
b=Mem(); now=[100000.0]
with mock.patch('time.time', lambda: now[0]):
    b.clock=now
    b.put('/buckets/pod:1', {'parent': None}); b.put('/buckets/rack:1', {'parent':'pod:1'})
    b.put('/cell/pod:1', {})
    for s in ('s1','s2'):
        b.put('/servers/'+s, {'parent':'rack:1','memory':'16G','disk':'128G','cpu':'400%','up_since':now[0]})
        b.put('/server.presence/'+s, {'valid_until': now[0]+30*86400})
    b.put('/scheduled/p.a#0000000001', {'memory':'1G','disk':'1G','cpu':'10%','affinity':'p.a'})
    m=master.Master(b,'cell'); m.create_rootns(); m.load_model(); m.init_schedule()
    first = m.cell.apps['p.a#0000000001'].server
    print('placed on', first)
    # while no master is running the server is de-configured
    b.delete('/servers/'+first); b.delete('/server.presence/'+first)
    now[0]+=60
    m2=master.Master(b,'cell'); m2.load_model(); m2.init_schedule()
    recs=[k for k in b.d if k.startswith('/placement/') and k.count('/')==3]
    print('model:', m2.cell.apps['p.a#0000000001'].server, 'records:', recs)
    try:
        m2.check_placement_integrity(); print('integrity check passed; records:', [k for k in b.d if k.startswith('/placement/') and k.count('/')==3])
    except AssertionError as e:
        print('integrity check FAILED', e)
