"""Triage replay (not a check): an identity group is shrunk and grown again between two scheduling cycles (two count changes in one
batch of events; the same happens when a group is deleted while in use - adjust(0) - and created again).  The shrink is acted on
only by the revocation pass of the next cycle, so the instances still hold their now out-of-range identities when the grow adds the
same numbers to the free set again; back in range, the holders keep them, and the cycle hands them to new instances a second time
(C05: within an identity group no two instances hold the same identity).  Listed as F12 "not decided" until the eighth seeding
round; now decided by C05.3 (free set excludes held identities after a count that may grow the range) and repaired in /repo."""
import sys, os, collections
sys.path.insert(0, os.environ.get('TM_LIB', '/repo/lib/python'))
from treadmill import scheduler as s
s.DIMENSION_COUNT = 3
cell = s.Cell('c')
rack = s.Bucket('rack:1', level='rack'); cell.add_node(rack)
s1 = s.Server('s1', [100, 100, 100], valid_until=10**12, label='_default'); rack.add_node(s1)
cell.configure_identity_group('g', 3)
alloc = cell.partitions['_default'].allocation
apps = [s.Application('p.a#%d' % i, 10, [1, 1, 1], 'A', identity_group='g') for i in range(3)]
for a in apps:
    cell.add_app(alloc, a)
cell.schedule()
print('cycle 1:', [(a.name, a.identity) for a in apps], 'free', cell.identity_groups['g'].available)
cell.configure_identity_group('g', 1)       # shrink ...
cell.configure_identity_group('g', 3)       # ... and grow again before the next cycle
new = [s.Application('p.a#%d' % i, 10, [1, 1, 1], 'A', identity_group='g') for i in range(3, 5)]
for a in new:
    cell.add_app(alloc, a)
cell.schedule()
held = [(a.name, a.server, a.identity) for a in apps + new]
print('cycle 2:', held)
counts = collections.Counter(i for _n, _s, i in held if i is not None)
dup = sorted(i for i, c in counts.items() if c > 1)
print('OK' if not dup else 'VIOLATION: identities held twice: %s' % dup)
sys.exit(0 if not dup else 1)
