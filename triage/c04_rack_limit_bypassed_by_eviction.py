import sys
sys.path.insert(0,'/repo/lib/python')
from treadmill import scheduler as s
s.DIMENSION_COUNT = 3
cell = s.Cell('c')
rack = s.Bucket('rack:1', level='rack'); cell.add_node(rack)
s1 = s.Server('s1', [10,10,10], valid_until=10**12, label='_default'); rack.add_node(s1)
s2 = s.Server('s2', [10,10,10], valid_until=10**12, label='_default'); rack.add_node(s2)
alloc = cell.partitions['_default'].allocation
lim = {'rack': 1}
# low-priority filler on s2, different affinity
x1 = s.Application('p.x#1', 50, [2,2,2], 'X', affinity_limits=lim)
f = s.Application('p.f#2', 1, [10,10,10], 'F')
for app in (x1, f): cell.add_app(alloc, app)
cell.schedule(); print([(a.name,a.server) for a in (x1,f)])
# new high-priority X app: rack limit 1 already used by x1 -> must stay pending
x2 = s.Application('p.x#3', 40, [10,10,10], 'X', affinity_limits=lim)
cell.add_app(alloc, x2)
cell.schedule(); print([(a.name,a.server) for a in (x1,x2,f)]); print('rack X count', rack.affinity_counters['X'])
