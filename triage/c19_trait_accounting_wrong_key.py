import sys
sys.path.insert(0,'/repo/lib/python')
from treadmill.api import allocation as a
limits=[{'trait':'t1','cpu':'1000%','memory':'100G','disk':'100G'}]
allocs=[{'_id':'x/cell','cpu':'100%','memory':'1G','disk':'1G','traits':['t1']}]
try:
    print(a._calc_free_traits(limits, allocs, 'y/cell'))
except Exception as e:
    print('EXC', type(e).__name__, e)
allocs=[{'_id':'x/cell','cpu':'100','memory':'1G','disk':'1G','traits':['t1']}]
print(a._calc_free_traits(limits, allocs, 'y/cell'))
