import sys
sys.path.insert(0,'/repo/lib/python')
from treadmill import scheduler as s
s.DIMENSION_COUNT = 3
cell = s.Cell('c')
rack = s.Bucket('rack:1', level='rack'); cell.add_node(rack)
sa = s.Server('sa', [10,10,10], valid_until=10**12, label='A'); rack.add_node(sa)
sb = s.Server('sb', [10,10,10], valid_until=10**12, label='B'); rack.add_node(sb)
alloc_a = cell.partitions['A'].allocation.get_sub_alloc('t')
alloc_b = cell.partitions['B'].allocation.get_sub_alloc('t')
a = s.Application('p.a#1', 10, [2,2,2], 'aff')
cell.add_app(alloc_a, a)
cell.schedule(); print(a.server, a.allocation.label)
cell.add_app(alloc_b, a)   # re-assigned to partition B (as load_app does on allocations event)
cell.schedule(); print(a.server, a.allocation.label)
cell.schedule(); print(a.server, a.allocation.label)
