"""Triage replay (not a check): an identity group shrinks while no master
runs.  The start-up cycle revokes the out-of-range identity, re-places the
instance on the same server with a new identity, but the stored record under
that server (stored ∩ model) is not rewritten."""
import os, sys; sys.path.insert(0, os.path.dirname(os.path.abspath(__file__))); sys.path.insert(0, os.environ.get('TM_LIB', '/repo/lib/python'))
import mock
from membe import Mem
from treadmill import scheduler
from treadmill.scheduler import master
scheduler.DIMENSION_COUNT=3
b=Mem()
now=[100000.0]
with mock.patch('time.time', lambda: now[0]):
    b.clock=now
    b.put('/buckets/pod:1', {'parent': None, 'traits':0}); b.put('/buckets/rack:1', {'parent':'pod:1','traits':0})
    b.put('/cell/pod:1', {})
    b.put('/servers/s1', {'parent':'rack:1','memory':'16G','disk':'128G','cpu':'400%','up_since':now[0]})
    b.put('/server.presence/s1', {'valid_until': now[0]+30*86400})
    b.put('/identity-groups/g', {'count': 5})
    for i in range(1,6):
        b.put('/scheduled/p.a#000000000%d' % i, {'memory':'1G','disk':'1G','cpu':'10%','affinity':'p.a','identity_group':'g'})
    m=master.Master(b,'cell'); m.create_rootns(); m.load_model(); m.init_schedule()
    recs={k:v['identity'] for k,v in b.d.items() if k.startswith('/placement/s1/')}
    print('first:', recs)
    # group shrinks to 5 -> 2 while no master runs; 3 instances deleted
    now[0]+=600
    b.put('/identity-groups/g', {'count': 2})
    keep=[k for k,v in recs.items() if v>=2][:2]
    for k in recs:
        if k not in keep:
            b.delete('/scheduled/'+k.split('/')[-1])
    m2=master.Master(b,'cell'); m2.load_model(); m2.init_schedule()
    recs2={k:v['identity'] for k,v in b.d.items() if k.startswith('/placement/s1/')}
    model={a.name:(a.server,a.identity) for a in m2.cell.apps.values()}
    print('second records:', recs2); print('model:', model)
    bad=[k for k,v in recs2.items() if model[k.split('/')[-1]][1]!=v]
    print('STALE' if bad else 'OK', bad)
