"""C06 observations on the UNCHANGED tree (exit 1 when any of them shows).

O1  Allocation(..., max_utilization=X): the constructor stores the cap and
    then calls self.update(reserved, rank, 0), whose max_utilization default
    (None) resets the cap to infinity.  Instances beyond the cap are queued
    with the normal rank and get scheduled.
O2  Loader.load_allocations(): when the allocations list becomes empty the
    method returns before self.assignments is reset, so instances keep being
    assigned to the deleted allocation with the old assignment priority.
O3  Allocation.utilization_queue(): heapq.merge compares whole entries; two
    instances of sibling allocations that tie on (rank, util_before,
    util_after, pending, global_order) make it compare Application objects
    -> TypeError, the cycle considers nobody.  Needs equal global_order
    (same microsecond at creation; shown here with a frozen clock).
"""
import os
import sys
sys.path.insert(0, os.environ['TM_LIB'])

from unittest import mock  # noqa: E402

from treadmill import scheduler  # noqa: E402
from treadmill import zknamespace as z  # noqa: E402
from treadmill.scheduler import loader  # noqa: E402


class FakeBackend:
    """In memory backend."""

    def __init__(self):
        self.data = {}

    def list(self, path):
        prefix = path.rstrip('/') + '/'
        return sorted(set(
            key[len(prefix):].split('/')[0]
            for key in self.data if key.startswith(prefix)
        ))

    def get_default(self, path, default=None):
        return self.data.get(path, default)


def obs1():
    scheduler.DIMENSION_COUNT = 2
    alloc = scheduler.Allocation([3, 3], max_utilization=1)
    alloc.add(scheduler.Application('app1', 1, [1, 1], 'app'))
    alloc.add(scheduler.Application('app2', 1, [2, 2], 'app'))
    alloc.add(scheduler.Application('app3', 1, [3, 3], 'app'))
    ranks = [(item[-1].name, item[0])
             for item in alloc.utilization_queue([20., 20.])]
    print('O1: max_utilization after Allocation([3,3], max_utilization=1):',
          alloc.max_utilization, 'ranks:', ranks)
    # app3 is beyond the cap (cumulative demand 6 > reserved 3 * cap 1).
    return ranks[-1][1] == scheduler._UNPLACED_RANK


def obs2():
    scheduler.DIMENSION_COUNT = 3
    backend = FakeBackend()
    ldr = loader.Loader(backend, 'testcell')
    ldr.load_partitions()
    backend.data[z.ALLOCATIONS] = [{
        'name': 't/a', 'partition': '_default', 'rank': 50,
        'memory': '1G', 'cpu': '100%', 'disk': '1G',
        'assignments': [{'pattern': 'proid.web*', 'priority': 80}],
    }]
    name = 'proid.web#0000000001'
    backend.data[z.path.scheduled(name)] = {
        'memory': '100M', 'cpu': '10%', 'disk': '100M', 'affinity': 'x'}
    ldr.load_allocations()
    ldr.load_apps()
    app = ldr.cell.apps[name]
    print('O2: before: allocation=%s priority=%s' % (app.allocation.name,
                                                     app.priority))
    # All allocations are deleted; what _handle_allocations_event does:
    backend.data[z.ALLOCATIONS] = []
    ldr.load_allocations()
    ldr.load_apps()
    print('O2: after allocations=[]: allocation=%s priority=%s' % (
        app.allocation.name, app.priority))
    return app.allocation.name == '_default/proid' and app.priority == 1


def obs3():
    scheduler.DIMENSION_COUNT = 2
    root = scheduler.Allocation()
    sub_a = scheduler.Allocation()
    sub_b = scheduler.Allocation()
    root.add_sub_alloc('a', sub_a)
    root.add_sub_alloc('b', sub_b)
    with mock.patch('time.time', return_value=1500000000.0):
        sub_a.add(scheduler.Application('a1', 1, [1, 1], 'app'))
        sub_b.add(scheduler.Application('b1', 1, [1, 1], 'app'))
    try:
        names = [item[-1].name
                 for item in root.utilization_queue([20., 20.])]
        print('O3: queue', names)
        return True
    except TypeError as err:
        print('O3: utilization_queue raised TypeError: %s' % err)
        return False


def main():
    results = [('O1', obs1()), ('O2', obs2()), ('O3', obs3())]
    for name, holds in results:
        print('%s: %s' % (name, 'holds' if holds else 'VIOLATED'))
    return 0 if all(holds for _n, holds in results) else 1


if __name__ == '__main__':
    sys.exit(main())
