"""C14 observation on the UNCHANGED tree: EndpointsMgr.create_spec compares
the existing link's owner with `appname` (not with the caller's `owner`), so
a second owner can be told "created" for a spec that another live owner
holds.  Exit 1 when the deviation shows.
"""
import os, sys
sys.path.insert(0, os.environ['TM_LIB'])
import shutil, tempfile
from treadmill import endpoints

root = tempfile.mkdtemp(prefix='c14obs-')
try:
    apps = os.path.join(root, 'apps')
    os.makedirs(os.path.join(apps, 'app1'))        # live owner 1
    os.makedirs(os.path.join(apps, 'app1-67890'))  # live owner 2
    mgr = endpoints.EndpointsMgr(os.path.join(root, 'endpoints'))
    args = dict(appname='app1', proto='tcp', endpoint='http',
                real_port=12345, pid=4, port=8000)
    mgr.create_spec(owner=os.path.join(apps, 'app1'), **args)
    try:
        mgr.create_spec(owner=os.path.join(apps, 'app1-67890'), **args)
        second = 'accepted'
    except OSError as err:
        second = 'refused (%s)' % err
    spec = os.path.join(root, 'endpoints', os.listdir(mgr.path)[0])
    print('spec owner on disk :', os.readlink(spec))
    print('second create_spec :', second)
    bad = second == 'accepted'
    # and the converse: the real owner re-creating its own spec is refused
    os.unlink(spec)
    mgr.create_spec(owner=os.path.join(apps, 'app1-67890'), **args)
    try:
        mgr.create_spec(owner=os.path.join(apps, 'app1-67890'), **args)
        print('owner re-create    : accepted')
    except OSError as err:
        print('owner re-create    : refused (%s)' % err)
finally:
    shutil.rmtree(root, ignore_errors=True)
print('DEVIATION: two live owners were both told they hold the spec'
      if bad else 'no deviation')
sys.exit(1 if bad else 0)
