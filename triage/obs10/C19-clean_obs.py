"""C19 clean-tree observation: the capacity check reads the replica.

treadmill.admin._ldap keeps two connections: reads with dirty=False go to the
read connection (a replication consumer), writes and reads with dirty=True go
to the write server ("to avoid problems with replication delays", as the code
says).  The reservation API writes to the write server and re-reads with
dirty=True - but _check_capacity lists the partition's reservations with the
default dirty=False.

This script models exactly that split with in-memory admin objects: a master
store (writes, dirty reads) and a replica store (plain reads) that only
catches up when replicate() is called.  Two reservations created back to back
- each one fits, both together do not - are both accepted on the unchanged
tree.

exit 0: second request rejected (property holds); exit 1: both accepted.

Secondary (printed only, does not decide the exit code): a partition capacity
of '1.5G' passes cli.validate_memory (re.search, no '^' anchor) and then every
reservation check in that partition dies with ValueError instead of an
InvalidInputError.
"""

import os
import sys
sys.path.insert(0, os.environ['TM_LIB'])

import copy
import inspect
import warnings

warnings.filterwarnings('ignore')

import decorator
if not hasattr(decorator, 'getargspec'):
    decorator.getargspec = inspect.getfullargspec

from unittest import mock

from treadmill import exc
from treadmill.admin import exc as admin_exceptions
from treadmill.api import allocation

CELL = 'cellname'


class Partition:
    """Partition admin object (no lag modelled: it is not written here)."""

    def __init__(self, obj):
        self.obj = obj

    def get(self, _ident, dirty=False):
        return copy.deepcopy(self.obj)


class LaggingCellAlloc:
    """Cell-allocation admin object with a master and a lagging replica."""

    def __init__(self):
        self.master = {}
        self.replica = {}

    def replicate(self):
        self.replica = copy.deepcopy(self.master)

    def _store(self, dirty):
        return self.master if dirty else self.replica

    def list(self, attrs, dirty=False, **_kwargs):
        return [
            copy.deepcopy(rec) for rec in self._store(dirty).values()
            if rec['cell'] == attrs['cell'] and
            rec['partition'] == attrs['partition']
        ]

    def get(self, ident, dirty=False):
        try:
            return copy.deepcopy(self._store(dirty)[tuple(ident)])
        except KeyError:
            raise admin_exceptions.NoSuchObjectResult()

    def create(self, ident, data):
        if tuple(ident) in self.master:
            raise admin_exceptions.AlreadyExistsResult()
        cell, alloc = ident
        rec = {'_id': '%s/%s' % (alloc, cell), 'cell': cell, 'traits': [],
               'assignments': []}
        rec.update(copy.deepcopy(data))
        self.master[tuple(ident)] = rec


def main():
    part = Partition({
        '_id': 'pp', 'cpu': '100%', 'memory': '10G', 'disk': '10G',
        'limits': [],
    })
    cell_alloc = LaggingCellAlloc()
    decisions = []

    with mock.patch('treadmill.context.AdminContext.conn',
                    mock.Mock(return_value=None)), \
            mock.patch('treadmill.context.AdminContext.partition',
                       mock.Mock(return_value=part)), \
            mock.patch('treadmill.context.AdminContext.cell_allocation',
                       mock.Mock(return_value=cell_alloc)):
        api = allocation.API()
        for name in ('t/a/', 't/b/'):
            try:
                api.reservation.create(
                    name + CELL,
                    {'cpu': '60%', 'memory': '6G', 'disk': '6G',
                     'partition': 'pp'})
                decisions.append('accepted')
            except exc.InvalidInputError as err:
                decisions.append('rejected (%s)' % err)
            print('create %s%s cpu=60%% -> %s' % (name, CELL, decisions[-1]))
            # no cell_alloc.replicate() here: the consumer has not caught up

        # secondary observation
        from treadmill import cli
        value = cli.validate_memory(None, None, '1.5G')
        part.obj['memory'] = value
        try:
            api.reservation.create(
                't/c/' + CELL,
                {'cpu': '1%', 'memory': '100G', 'disk': '1G',
                 'partition': 'pp'})
            print('secondary: partition memory %r -> accepted' % value)
        except exc.InvalidInputError as err:
            print('secondary: partition memory %r -> input error %s'
                  % (value, err))
        except Exception as err:  # pylint: disable=broad-except
            print('secondary: partition memory %r (passed '
                  'cli.validate_memory) -> service failure %r' % (value, err))

    total = sum(int(rec['cpu'][:-1]) for rec in cell_alloc.master.values())
    print('stored on the write server: cpu total %d%% of partition 100%%'
          % total)
    if total > 100:
        print('VIOLATED: both accepted, sum exceeds the partition capacity')
        return 1
    print('OK')
    return 0


if __name__ == '__main__':
    sys.exit(main())
