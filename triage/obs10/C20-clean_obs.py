"""C20 - histories on the UNCHANGED tree that already break the property.

Same harness as demo_a/demo_b: the real treadmill.sproc.appmonitor._run_sync
loop against an in-memory ZooKeeper, a fake cell API behind restclient.post
and a virtual clock.  Four independent scenarios, see observations.md.

exit 1 when at least one scenario shows a violation (expected on the clean
tree), exit 0 otherwise.
"""

import os
import sys

sys.path.insert(0, os.environ['TM_LIB'])

# pylint: disable=wrong-import-position
import collections
import json
import re
import shutil
import tempfile
import threading
from unittest import mock

import kazoo.exceptions
from kazoo.protocol.states import EventType, KazooState, WatchedEvent
from kazoo.recipe import watchers as kwatchers

from treadmill import restclient  # noqa: F401
from treadmill.sproc import appmonitor

Stat = collections.namedtuple('Stat', 'mzxid version')


class _Handler:
    """Synchronous stand-in for the kazoo handler."""

    @staticmethod
    def lock_object():
        return threading.RLock()

    @staticmethod
    def sleep_func(_secs):
        return None

    @staticmethod
    def spawn(func, *args, **kwargs):
        return func(*args, **kwargs)


class FakeZk:
    """Tiny in-memory ZooKeeper: nodes, one-shot data/children watches."""

    def __init__(self):
        self.handler = _Handler()
        self.nodes = {}
        self.zxid = 0
        self.data_watches = collections.defaultdict(list)
        self.child_watches = collections.defaultdict(list)

    # -- plumbing used by kazoo's ChildrenWatch / ExistingDataWatch --------
    def add_listener(self, _listener):
        pass

    def remove_listener(self, _listener):
        pass

    @staticmethod
    def retry(func, *args, **kwargs):
        return func(*args, **kwargs)

    def ChildrenWatch(self, path):  # pylint: disable=invalid-name
        return kwatchers.ChildrenWatch(self, path)

    @staticmethod
    def make_default_acl(_acl):
        return []

    # -- data ---------------------------------------------------------------
    def _fire(self, registry, path, etype):
        watches, registry[path] = registry[path], []
        event = WatchedEvent(type=etype, state=KazooState.CONNECTED, path=path)
        for watch in watches:
            watch(event)

    def get(self, path, watch=None):
        if path not in self.nodes:
            raise kazoo.exceptions.NoNodeError(path)
        if watch is not None:
            self.data_watches[path].append(watch)
        data, mzxid, version = self.nodes[path]
        return data, Stat(mzxid, version)

    def get_children(self, path, watch=None):
        if path not in self.nodes:
            raise kazoo.exceptions.NoNodeError(path)
        if watch is not None:
            self.child_watches[path].append(watch)
        prefix = path.rstrip('/') + '/'
        return [
            node[len(prefix):] for node in self.nodes
            if node.startswith(prefix) and '/' not in node[len(prefix):]
        ]

    def create(self, path, value=b'', **_kwargs):
        if path in self.nodes:
            raise kazoo.exceptions.NodeExistsError(path)
        self.zxid += 1
        self.nodes[path] = (value, self.zxid, 0)
        parent = path.rsplit('/', 1)[0] or '/'
        self._fire(self.child_watches, parent, EventType.CHILD)
        return path

    def set(self, path, value):
        if path not in self.nodes:
            raise kazoo.exceptions.NoNodeError(path)
        self.zxid += 1
        self.nodes[path] = (value, self.zxid, self.nodes[path][2] + 1)
        self._fire(self.data_watches, path, EventType.CHANGED)

    def delete(self, path):
        if path not in self.nodes:
            raise kazoo.exceptions.NoNodeError(path)
        self.zxid += 1
        del self.nodes[path]
        self._fire(self.data_watches, path, EventType.DELETED)
        parent = path.rsplit('/', 1)[0] or '/'
        self._fire(self.child_watches, parent, EventType.CHILD)


class _Done(Exception):
    """Raised by the patched time.sleep when the scenario is over."""


class Harness:
    """Runs _run_sync under a virtual clock, one scenario step per second."""

    def __init__(self):
        self.zk = FakeZk()
        self.zk.create('/scheduled')
        self.zk.create('/app-monitors')
        self.now = 1000.0
        self.seq = 0
        self.steps = []
        self.evaluations = []   # one record per reevaluate() call
        self.state = None
        self._calls = None
        self._real_reevaluate = appmonitor.reevaluate

    # -- the cell, as seen through ZooKeeper ---------------------------------
    def scheduled(self, name=None):
        insts = sorted(self.zk.get_children('/scheduled'))
        if name is not None:
            insts = [i for i in insts if i.rpartition('#')[0] == name]
        return insts

    def configured(self):
        res = {}
        for name in self.zk.get_children('/app-monitors'):
            res[name] = json.loads(
                self.zk.nodes['/app-monitors/' + name][0].decode()
            )
        return res

    def set_monitor(self, name, **data):
        path = '/app-monitors/' + name
        payload = json.dumps(data).encode()
        if path in self.zk.nodes:
            self.zk.set(path, payload)
        else:
            self.zk.create(path, payload)

    def kill(self, name):
        """All instances of the app finish (they leave /scheduled)."""
        for inst in self.scheduled(name):
            self.zk.delete('/scheduled/' + inst)

    # -- fake cell API behind restclient.post ------------------------------
    def _post(self, api, url, payload=None, headers=None, **_kwargs):
        assert api == ['http://cellapi'] and headers
        match = re.match(r'^/instance/([^?]+)\?count=(-?\d+)$', url)
        if url == '/instance/_bulk/delete':
            insts = list(payload['instances'])
            self._calls.append(('delete', None, insts))
            for inst in insts:
                if '/scheduled/' + inst in self.zk.nodes:
                    self.zk.delete('/scheduled/' + inst)
            return mock.Mock()
        assert match, url
        name, count = match.group(1), int(match.group(2))
        self._calls.append(('create', name, count))
        for _idx in range(count):
            self.seq += 1
            self.zk.create('/scheduled/%s#%010d' % (name, self.seq))
        return mock.Mock()

    # -- driver -----------------------------------------------------------
    def _sleep(self, _secs):
        self.now += 1.0
        if not self.steps:
            raise _Done()
        step = self.steps.pop(0)
        if step is not None:
            step()

    def _reevaluate(self, api_url, alert_f, state, zkclient, last_waited):
        self.state = state
        self._calls = []
        record = {
            'now': self.now,
            'view': {k: list(v) for k, v in state['scheduled'].items()},
            'monitors': {
                k: dict(v) for k, v in state['monitors'].items()
            },
            'suspended': dict(state['suspended']),
            'configured': self.configured(),
        }
        try:
            return self._real_reevaluate(
                api_url, alert_f, state, zkclient, last_waited
            )
        finally:
            record['calls'] = self._calls
            record['after'] = {
                k: dict(v) for k, v in state['monitors'].items()
            }
            self.evaluations.append(record)

    def run(self, steps):
        self.steps = list(steps)
        tmpdir = tempfile.mkdtemp()
        ctx = mock.Mock()
        ctx.cell = 'demo'
        ctx.zk.conn = self.zk
        try:
            with mock.patch('treadmill.context.GLOBAL', ctx), \
                    mock.patch('time.time', lambda: self.now), \
                    mock.patch('time.sleep', self._sleep), \
                    mock.patch('treadmill.restclient.post', self._post), \
                    mock.patch('treadmill.sproc.appmonitor.reevaluate',
                               self._reevaluate):
                try:
                    # pylint: disable=protected-access
                    appmonitor._run_sync('http://cellapi', tmpdir, False)
                except _Done:
                    pass
        finally:
            shutil.rmtree(tmpdir, ignore_errors=True)


class HoldingZk(FakeZk):
    """FakeZk whose children-watch notifications can be delayed."""

    def __init__(self):
        super().__init__()
        self.held = set()
        self.pending = []

    def _fire(self, registry, path, etype):
        if registry is self.child_watches and path in self.held:
            if path not in self.pending:
                self.pending.append(path)
            return
        super()._fire(registry, path, etype)

    def hold(self, path):
        self.held.add(path)

    def release(self, path):
        self.held.discard(path)
        if path in self.pending:
            self.pending.remove(path)
            super()._fire(self.child_watches, path, EventType.CHILD)


def _harness():
    harness = Harness()
    zk = HoldingZk()
    zk.create('/scheduled')
    zk.create('/app-monitors')
    harness.zk = zk
    return harness


def obs1_stale_view():
    """The /scheduled children watch lags one evaluation behind."""
    harness = _harness()
    name = 'proid.lag'
    peak = []

    def _configure():
        harness.set_monitor(name, count=3)
        harness.zk.hold('/scheduled')

    def _peek():
        peak.append(len(harness.scheduled(name)))

    def _release():
        peak.append(len(harness.scheduled(name)))
        harness.zk.release('/scheduled')

    harness.run([_configure, _peek, _release, None])
    for idx, rec in enumerate(harness.evaluations, 1):
        print('  eval %d t=%d view=%d calls=%r' % (
            idx, rec['now'], len(rec['view'].get(name, [])), rec['calls']))
    print('  instances in /scheduled before eval 2, 3: %r (target 3)' % peak)
    bad = max(peak) > 3
    print('  overshoot: %s' % bad)
    return bad


def obs2_clock_steps_back():
    """Wall clock stepped back: negative refill, negative token count."""
    harness = _harness()
    harness.now = 1000000.0
    name = 'proid.ntp'

    def _configure():
        harness.set_monitor(name, count=1)

    def _crash():
        harness.kill(name)

    def _step_back():
        harness.now -= 3600.0

    harness.run([_configure, _crash, _step_back, None])
    lowest = 0.0
    for idx, rec in enumerate(harness.evaluations, 1):
        avail = rec['after'][name]['available']
        lowest = min(lowest, avail)
        print('  eval %d t=%d calls=%r tokens=%r' % (
            idx, rec['now'], rec['calls'], avail))
    bad = lowest < 0
    print('  negative budget: %s' % bad)
    return bad


def obs3_alert_fails_after_post():
    """alert_f raises after the create succeeded: tokens are not charged."""
    harness = _harness()
    name = 'proid.alrt'
    t_conf = []
    fail = []

    def _configure():
        t_conf.append(harness.now)
        harness.set_monitor(name, count=1)

    def _crash():
        harness.kill(name)

    def _later():
        harness.now += 1800.0
        fail.append(True)

    real_create = appmonitor.alert.create

    def _alert_create(*args, **kwargs):
        if fail and kwargs.get('status') == 'clear':
            raise OSError(28, 'No space left on device')
        return real_create(*args, **kwargs)

    with mock.patch('treadmill.alert.create', _alert_create):
        harness.run([_configure, _crash, _crash, _later, _crash, _crash])

    total = 0
    bad = False
    for idx, rec in enumerate(harness.evaluations, 1):
        total += sum(c[2] for c in rec['calls'] if c[0] == 'create')
        bound = 2.0 * (1.0 + (rec['now'] - t_conf[0]) / 3600.0)
        print('  eval %d t=%d calls=%r asked so far %d, budget %.3f, '
              'tokens=%r' % (idx, rec['now'], rec['calls'], total, bound,
                             rec['after'][name]['available']))
        bad = bad or total > bound
    print('  budget exceeded: %s' % bad)
    return bad


def obs4_recreated_monitor():
    """Monitor deleted and re-created before the children watch re-reads."""
    harness = _harness()
    name = 'proid.redo'

    def _configure():
        harness.set_monitor(name, count=1)

    def _recreate():
        harness.zk.hold('/app-monitors')
        harness.zk.delete('/app-monitors/' + name)
        harness.set_monitor(name, count=3)
        harness.zk.release('/app-monitors')

    def _update():
        harness.set_monitor(name, count=3, policy='lifo')

    harness.run([_configure, _recreate, None, _update, None])
    for idx, rec in enumerate(harness.evaluations, 1):
        print('  eval %d t=%d configured=%r monitor state count=%r calls=%r'
              % (idx, rec['now'], rec['configured'].get(name),
                 rec['after'].get(name, {}).get('count'), rec['calls']))
    have = len(harness.scheduled(name))
    print('  configured target 3, scheduled at the end: %d' % have)
    bad = have != 3
    print('  stuck on the deleted monitor\'s target: %s' % bad)
    return bad


def main():
    """Run all scenarios."""
    results = []
    for func in (obs1_stale_view, obs2_clock_steps_back,
                 obs3_alert_fails_after_post, obs4_recreated_monitor):
        print('%s: %s' % (func.__name__, func.__doc__))
        results.append(func())
    print('violations: %r' % results)
    return 1 if any(results) else 0


if __name__ == '__main__':
    sys.exit(main())
