"""C17 observations on the UNCHANGED tree (exit 1 = the histories below violate
the property as written).

Obs 1 (same instance, re-evaluation order):
  OLD and NEW containers of foo.bar#12345 are both live on the host (NEW has
  taken the nodes over, OLD not cleaned up yet).  The presence service
  restarts keeping its session (--zkid file) and re-imports the request links
  in directory order (glob, unordered).  If NEW is handled before OLD, OLD's
  re-evaluation rewrites the endpoint with the dead container's port and takes
  the bookkeeping back; OLD's clean-up then deletes the running/endpoint nodes
  of NEW.  (Any other re-evaluation of OLD's request after NEW registered -
  retry_request from a watch, a client update - has the same effect.)

Obs 2 (different instances, shared identity node):
  /identity-groups/<group>/<n> is keyed per *instance* in the bookkeeping
  (presence[app_name][path]).  When identity n moves from instance #1 to
  instance #2 on the same host before #1 is cleaned up, both instances book
  the same path; #1's clean-up deletes the identity node that now carries
  #2's registration.
"""

import os
import sys

sys.path.insert(0, os.environ['TM_LIB'])

import collections  # noqa: E402
import logging  # noqa: E402
import shutil  # noqa: E402
import tempfile  # noqa: E402

import kazoo.client  # noqa: E402
import mock  # noqa: E402

logging.basicConfig(level=logging.CRITICAL)

HOST = 'hosta.example.com'
S_OWN = 0x1001
S_OTHER = 0x2002

Stat = collections.namedtuple(
    'Stat', 'owner_session_id version children_count last_modified'
)
Event = collections.namedtuple('Event', 'type path')


class FakeZkServer:
    """In-memory node table shared by all sessions."""

    def __init__(self):
        self.nodes = {}
        self.watches = collections.defaultdict(list)

    def stat(self, path):
        node = self.nodes[path]
        kids = [p for p in self.nodes
                if p != path and p.rsplit('/', 1)[0] == path]
        return Stat(node['owner'], node['version'], len(kids), 0)

    def fire(self, path, etype):
        funcs, self.watches[path] = self.watches[path], []
        for func in funcs:
            if path in self.nodes:
                args = (self.nodes[path]['data'], self.stat(path))
            else:
                args = (None, None)
            if func(args[0], args[1], Event(etype, path)) is not False:
                self.watches[path].append(func)

    def expire(self, session_id):
        gone = [p for p, n in self.nodes.items() if n['owner'] == session_id]
        for path in gone:
            del self.nodes[path]
        for path in gone:
            self.fire(path, 'DELETED')

    def dump(self):
        return {
            p: (n['data'], n['owner'])
            for p, n in sorted(self.nodes.items()) if n['owner']
        }


class FakeZkClient:
    """The part of the kazoo client the presence service uses."""

    def __init__(self, server, session_id):
        self.server = server
        self.client_id = (session_id, b'pwd')

    def make_servers_acl(self):
        return 'servers-acl'

    def make_default_acl(self, acls):
        return list(acls or [])

    def create(self, path, value=b'', acl=None, ephemeral=False,
               sequence=False, makepath=False):
        assert isinstance(value, bytes)
        nodes = self.server.nodes
        if path in nodes:
            raise kazoo.client.NodeExistsError()
        parent = path.rsplit('/', 1)[0]
        if parent and parent not in nodes:
            if not makepath:
                raise kazoo.client.NoNodeError()
            self.create(parent, b'', makepath=True)
        nodes[path] = {
            'data': value,
            'owner': self.client_id[0] if ephemeral else 0,
            'version': 0,
        }
        self.server.fire(path, 'CREATED')
        return path

    def get(self, path, watch=None):
        if path not in self.server.nodes:
            raise kazoo.client.NoNodeError()
        return self.server.nodes[path]['data'], self.server.stat(path)

    def exists(self, path, watch=None):
        if path not in self.server.nodes:
            return None
        return self.server.stat(path)

    def set(self, path, value, version=-1):
        if path not in self.server.nodes:
            raise kazoo.client.NoNodeError()
        self.server.nodes[path]['data'] = value
        self.server.nodes[path]['version'] += 1
        self.server.fire(path, 'CHANGED')

    def set_acls(self, path, acls, version=-1):
        if path not in self.server.nodes:
            raise kazoo.client.NoNodeError()

    def get_children(self, path, watch=None):
        if path not in self.server.nodes:
            raise kazoo.client.NoNodeError()
        return sorted(
            p.rsplit('/', 1)[1] for p in self.server.nodes
            if p != path and p.rsplit('/', 1)[0] == path
        )

    def delete(self, path, version=-1, recursive=False):
        if path not in self.server.nodes:
            raise kazoo.client.NoNodeError()
        del self.server.nodes[path]
        self.server.fire(path, 'DELETED')

    def DataWatch(self, path):  # pylint: disable=invalid-name
        def _register(func):
            if path in self.server.nodes:
                args = (self.server.nodes[path]['data'],
                        self.server.stat(path))
            else:
                args = (None, None)
            if func(args[0], args[1], None) is not False:
                self.server.watches[path].append(func)
            return func
        return _register


class Node:
    """One presence service + its clients, driven by hand (no inotify loop).
    """

    def __init__(self, root, zkclient):
        from treadmill import context
        from treadmill import services
        from treadmill.services import presence_service

        context.GLOBAL.zk.conn = zkclient
        self.svc_dir = os.path.join(root, 'presence_svc')
        self.apps_dir = os.path.join(root, 'apps')
        self.rsrv = services.ResourceService(self.svc_dir, 'presence')
        self.impl = presence_service.PresenceResourceService()
        self.impl.initialize(self.svc_dir)
        self.rsrc_dir = os.path.join(self.svc_dir, 'resources')

    def _client(self, rsrc_id):
        return self.rsrv.make_client(
            os.path.join(self.apps_dir, rsrc_id, 'resources')
        )

    def _link(self, rsrc_id):
        return os.path.join(self.rsrc_dir, rsrc_id)

    def put(self, rsrc_id, data):
        """Container asks for presence; the service handles the event."""
        self._client(rsrc_id).put(rsrc_id, data)
        # pylint: disable=protected-access
        self.rsrv._on_created(self.impl, self._link(rsrc_id))
        return self.reply(rsrc_id)

    def delete(self, rsrc_id):
        """Container clean-up; the service handles the event."""
        self._client(rsrc_id).delete(rsrc_id)
        # pylint: disable=protected-access
        return self.rsrv._on_deleted(self.impl, self._link(rsrc_id))

    def reply(self, rsrc_id):
        return self._client(rsrc_id).get(rsrc_id)

    def pump(self):
        """Re-evaluate every live request that has no reply (what the
        service loop does on the 'modified' event of retry_request)."""
        for rsrc_id in sorted(os.listdir(self.rsrc_dir)):
            if rsrc_id.startswith('.'):
                continue
            if self.reply(rsrc_id) is None:
                # pylint: disable=protected-access
                self.rsrv._on_created(self.impl, self._link(rsrc_id))


def obs1(root, check):
    server = FakeZkServer()
    zkclient = FakeZkClient(server, S_OWN)
    node = Node(root, zkclient)
    old_id, new_id = 'foo.bar-12345-OLD', 'foo.bar-12345-NEW'
    running = '/running/foo.bar#12345'
    endpoint = '/endpoints/foo/bar#12345:tcp:http'

    node.put(old_id, {'endpoints': [{'name': 'http', 'port': 8000,
                                     'real_port': 32001}]})
    node.put(new_id, {'endpoints': [{'name': 'http', 'port': 8000,
                                     'real_port': 32002}]})
    print('   before restart:', server.dump())

    # Restart, same session; directory order happens to be NEW, OLD.
    node = Node(root, zkclient)
    for rsrc_id in (new_id, old_id):
        # pylint: disable=protected-access
        node.rsrv._on_created(node.impl, os.path.join(node.rsrc_dir, rsrc_id))
    print('   after re-import:', server.dump())
    check('obs1: endpoint still carries NEW port after re-import',
          server.nodes[endpoint]['data'] == (HOST + ':32002').encode())

    node.delete(old_id)
    print('   after OLD clean-up:', server.dump())
    check('obs1: NEW running/endpoint nodes survive OLD clean-up',
          running in server.nodes and endpoint in server.nodes)


def obs2(root, check):
    server = FakeZkServer()
    node = Node(root, FakeZkClient(server, S_OWN))
    ident = '/identity-groups/grp/3'

    node.put('foo.bar-1-AAA', {'endpoints': [],
                               'identity_group': 'grp', 'identity': 3})
    rep = node.put('foo.bar-2-BBB', {'endpoints': [],
                                     'identity_group': 'grp', 'identity': 3})
    print('   #2 reply:', rep, 'nodes:', server.dump())
    node.delete('foo.bar-1-AAA')
    print('   after #1 clean-up:', server.dump())
    check('obs2: identity node registered for #2 survives #1 clean-up',
          ident in server.nodes and
          b'foo.bar#2' in server.nodes[ident]['data'])


def main():
    failures = []

    def check(what, cond):
        print('  [%s] %s' % ('ok' if cond else 'VIOLATION', what))
        if not cond:
            failures.append(what)

    with mock.patch('treadmill.sysinfo.hostname',
                    mock.Mock(return_value=HOST)):
        for obs in (obs1, obs2):
            root = tempfile.mkdtemp(prefix='c17obs-')
            try:
                print(obs.__name__)
                obs(root, check)
            finally:
                shutil.rmtree(root, ignore_errors=True)

    if failures:
        print('C17 VIOLATED on this tree: %s' % '; '.join(failures))
        return 1
    print('C17 holds')
    return 0


if __name__ == '__main__':
    sys.exit(main())
