"""C08 observation on the UNCHANGED tree: an instance with a lease, placed on
a server that is down for less than the instance's data-retention timeout,
loses its placement when the master restarts (fail-over) meanwhile.

Exercises the real treadmill.scheduler.master.Master over an in-memory
stand-in for ZooKeeper (only the storage backend and the clock are mocked).

exit 0: property holds, exit 1: property violated.
"""
import os, sys; sys.path.insert(0, os.environ['TM_LIB'])

import copy
import collections
import logging
import threading
from unittest import mock

logging.disable(logging.CRITICAL)

from treadmill import scheduler                      # noqa: E402
from treadmill import zknamespace as z               # noqa: E402
from treadmill.scheduler import backend as be        # noqa: E402
from treadmill.scheduler import master               # noqa: E402


class Clock:
    """Virtual clock."""
    def __init__(self, now):
        self.now = float(now)

    def __call__(self):
        return self.now


CLOCK = Clock(1700000000)
Meta = collections.namedtuple('Meta', 'ctime')


class MemBackend(be.Backend):
    """In-memory ZooKeeper stand-in implementing the master storage API."""

    def __init__(self):
        super(MemBackend, self).__init__()
        self.nodes = {'/': [None, CLOCK() * 1000]}

    def _mk(self, path):
        parts = [p for p in path.split('/') if p]
        cur = ''
        for part in parts:
            cur = cur + '/' + part
            if cur not in self.nodes:
                self.nodes[cur] = [None, CLOCK() * 1000]

    def list(self, path):
        path = path.rstrip('/') or '/'
        if path not in self.nodes:
            raise be.ObjectNotFoundError()
        prefix = path.rstrip('/') + '/'
        return sorted(
            p[len(prefix):] for p in self.nodes
            if p.startswith(prefix) and '/' not in p[len(prefix):] and
            p != '/'
        )

    def get(self, path):
        return self.get_with_metadata(path)[0]

    def get_with_metadata(self, path):
        if path not in self.nodes:
            raise be.ObjectNotFoundError()
        data, ctime = self.nodes[path]
        return copy.deepcopy(data), Meta(ctime)

    def put(self, path, value):
        self._mk(path)
        self.nodes[path][0] = copy.deepcopy(value)

    def exists(self, path):
        return path in self.nodes

    def ensure_exists(self, path):
        self._mk(path)

    def delete(self, path):
        for node in [p for p in self.nodes
                     if p == path or p.startswith(path + '/')]:
            del self.nodes[node]

    def update(self, path, data, check_content=False):
        if path not in self.nodes:
            raise be.ObjectNotFoundError()
        self.nodes[path][0] = copy.deepcopy(data)

    def event_object(self):
        return threading.Event()


def placed_on(backend, appname):
    """Servers under which the app is recorded in /placement."""
    return [srv for srv in backend.list(z.PLACEMENT)
            if appname in backend.list(z.path.placement(srv))]


def main():
    """Run the scenario."""
    retention = 86400
    apps = {
        'foo.leased#0000000001': {'lease': '1h'},
        'foo.plain#0000000002': {},
    }

    scheduler.DIMENSION_COUNT = 3
    backend = MemBackend()
    tm_master = master.Master(backend, 'demo-cell')
    tm_master.create_rootns()

    backend.put('/buckets/rack:r1', {'traits': None})
    backend.put('/cell/rack:r1', None)
    backend.put(z.path.server('s1'), {
        'memory': '16G', 'cpu': '400%', 'disk': '128G',
        'parent': 'rack:r1', 'up_since': CLOCK() - 3600,
    })
    backend.put(z.path.server_presence('s1'), {})
    for app, extra in apps.items():
        manifest = {
            'memory': '1G', 'cpu': '100%', 'disk': '1G',
            'data_retention_timeout': '%ds' % retention,
        }
        manifest.update(extra)
        backend.put(z.path.scheduled(app), manifest)

    tm_master.load_model()
    tm_master.init_schedule()
    t_0 = CLOCK()

    def show(label, mst):
        print('%-10s state record %r' % (
            label, backend.get(z.path.placement('s1'))))
        for app in sorted(apps):
            print('           %-24s on %s, recorded under %r' % (
                app, mst.cell.apps[app].server, placed_on(backend, app)))

    show('t=+0', tm_master)
    for app in apps:
        assert tm_master.cell.apps[app].server == 's1'

    # The server dies.
    CLOCK.now = t_0 + 60
    backend.delete(z.path.server_presence('s1'))
    tm_master.process_server_presence(backend.list(z.SERVER_PRESENCE))
    tm_master.reschedule()
    show('t=+60', tm_master)

    # Master fail-over two minutes later: a new master loads the model.
    CLOCK.now = t_0 + 180
    new_master = master.Master(backend, 'demo-cell')
    new_master.load_model()
    new_master.init_schedule()
    show('t=+180', new_master)

    ok = True
    for app in sorted(apps):
        if (new_master.cell.apps[app].server != 's1' or
                placed_on(backend, app) != ['s1']):
            print('VIOLATION: server down for 120s, data retention %ds: %s '
                  'lost its placement at master restart' % (retention, app))
            ok = False

    print('RESULT: %s' % ('property holds' if ok else 'property VIOLATED'))
    return 0 if ok else 1


if __name__ == '__main__':
    with mock.patch('time.time', CLOCK):
        RC = main()
    sys.exit(RC)
