"""Clean-tree observation for C07 (letter of the property only).

An allocation is given a trait after its app was placed (what
Loader.load_allocations -> Allocation.set_traits does on an 'allocations'
event). The next cycle removes the app from its healthy server in
Cell._fix_invalid_placements; nothing ahead of it gains a placement and the
case is not in the exclusion list of the property text.

Exit 1 when the running app is displaced (unchanged tree), 0 otherwise.
"""
import os
import sys
sys.path.insert(0, os.environ['TM_LIB'])

import time  # noqa: E402

from treadmill import scheduler  # noqa: E402

scheduler.DIMENSION_COUNT = 2


def main():
    cell = scheduler.Cell('top')
    cell.add_node(scheduler.Server('s1', [10, 10], traits=0,
                                   valid_until=time.time() + 100000))
    alloc = cell.partitions[None].allocation.get_sub_alloc('proid')
    app = scheduler.Application('proid.a#1', 50, [2, 2], 'proid.a')
    cell.add_app(alloc, app)
    cell.schedule()
    assert app.server == 's1'

    alloc.set_traits(0b1)
    placement = cell.schedule()
    print(placement)
    if app.server != 's1':
        print('proid.a#1 was on s1 (up, not blacklisted / capped / renewing),'
              ' now %s; queue had nothing ahead of it' % app.server)
        return 1
    return 0


if __name__ == '__main__':
    sys.exit(main())
