"""C09 observations on the UNCHANGED tree (see observations.md).

O1: a server whose definition vanishes from /servers (servers event ->
    Loader.reload_server -> remove_server) loses its apps in the model before
    the next cycle takes its 'before' snapshot, so reschedule() never deletes
    /placement/<server>/<instance>.
O2: resizing an identity group does not rewrite identity_count of the
    records of instances that stay placed.

exit 1 if any of the two is seen (expected on the clean tree), else 0.
"""
import os, sys
sys.path.insert(0, os.environ['TM_LIB'])

import collections
import json
import threading

from treadmill import scheduler
from treadmill import zknamespace as z
from treadmill.scheduler import backend as be
from treadmill.scheduler import master as tm_master

scheduler.DIMENSION_COUNT = 3

Meta = collections.namedtuple('Meta', 'ctime')


class MemBackend(be.Backend):
    """In-memory stand-in for ZooKeeper (the external world)."""

    def __init__(self):
        super(MemBackend, self).__init__()
        self.nodes = {'/': [None, 0]}
        self.clock = 1000  # logical ms clock for ctime

    def _tick(self):
        self.clock += 1000
        return self.clock

    @staticmethod
    def _parent(path):
        parent = path.rsplit('/', 1)[0]
        return parent or '/'

    def _create(self, path, data):
        parent = self._parent(path)
        if parent not in self.nodes:
            self._create(parent, None)
        self.nodes[path] = [data, self._tick()]

    @staticmethod
    def _ser(value):
        if isinstance(value, bytes):
            return value
        return json.loads(json.dumps(value))

    def list(self, path):
        if path not in self.nodes:
            raise be.ObjectNotFoundError()
        prefix = path.rstrip('/') + '/'
        return sorted(p[len(prefix):] for p in self.nodes
                      if p.startswith(prefix) and p != '/' and
                      '/' not in p[len(prefix):])

    def get(self, path):
        if path not in self.nodes:
            raise be.ObjectNotFoundError()
        return self._ser(self.nodes[path][0])

    def get_with_metadata(self, path):
        if path not in self.nodes:
            raise be.ObjectNotFoundError()
        data, ctime = self.nodes[path]
        return self._ser(data), Meta(ctime)

    def put(self, path, value):
        value = self._ser(value)
        if path in self.nodes:
            self.nodes[path][0] = value
        else:
            self._create(path, value)

    def exists(self, path):
        return path in self.nodes

    def ensure_exists(self, path):
        if path not in self.nodes:
            self._create(path, None)

    def delete(self, path):
        prefix = path.rstrip('/') + '/'
        for p in [p for p in self.nodes if p == path or p.startswith(prefix)]:
            del self.nodes[p]

    def update(self, path, data, check_content=False):
        if path not in self.nodes:
            raise be.ObjectNotFoundError()
        self.nodes[path][0] = self._ser(data)

    def event_object(self):
        return threading.Event()


def make_cell(backend, servers, mem='16G', cpu='400%', disk='100G'):
    backend.put(z.path.bucket('pod:pod1'), {'parent': None, 'traits': 0})
    backend.put(z.path.bucket('rack:rack1'),
                {'parent': 'pod:pod1', 'traits': 0})
    backend.ensure_exists(z.path.cell('pod:pod1'))
    for name in servers:
        add_server(backend, name, mem, cpu, disk)
    for path in (z.SCHEDULED, z.PLACEMENT, z.IDENTITY_GROUPS, z.PARTITIONS,
                 z.EVENTS, z.RUNNING, z.BLACKEDOUT_SERVERS, z.FINISHED):
        backend.ensure_exists(path)


def add_server(backend, name, mem='16G', cpu='400%', disk='100G', up=True):
    backend.put(z.path.server(name), {
        'parent': 'rack:rack1', 'memory': mem, 'cpu': cpu, 'disk': disk,
        'up_since': 100,
    })
    if up:
        backend.put(z.path.server_presence(name), {})


def add_app(backend, name, mem='1G', cpu='10%', disk='1G', **kw):
    manifest = {'memory': mem, 'cpu': cpu, 'disk': disk, 'affinity':
                name.split('#')[0]}
    manifest.update(kw)
    backend.put(z.path.scheduled(name), manifest)


def new_master(backend):
    m = tm_master.Master(backend, 'test-cell')
    return m


def sync_scheduled(m):
    m.process_scheduled(m.backend.list(z.SCHEDULED))


def check(m, label, strict_count=False):
    """Compare the full dump of /placement with the model."""
    backend = m.backend
    problems = []
    published = {}
    for server in backend.list(z.PLACEMENT):
        for app in backend.list(z.path.placement(server)):
            published.setdefault(app, []).append(
                (server, backend.get(z.path.placement(server, app))))

    for name, app in sorted(m.cell.apps.items()):
        entries = published.pop(name, [])
        if app.server is None:
            for server, _data in entries:
                problems.append('%s is pending but published under %s'
                                % (name, server))
            continue
        if not entries:
            problems.append('%s placed on %s but not published'
                            % (name, app.server))
        for server, data in entries:
            if server != app.server:
                problems.append('%s published under %s, model has %s'
                                % (name, server, app.server))
                continue
            data = data or {}
            if data.get('identity') != app.identity:
                problems.append('%s identity published %r, model %r'
                                % (name, data.get('identity'), app.identity))
            if data.get('expires') != app.placement_expiry:
                problems.append('%s expires published %r, model %r'
                                % (name, data.get('expires'),
                                   app.placement_expiry))
            if strict_count:
                want = m._placement_data(name)['identity_count']
                if data.get('identity_count') != want:
                    problems.append('%s identity_count published %r, model %r'
                                    % (name, data.get('identity_count'), want))
    for name, entries in sorted(published.items()):
        for server, _data in entries:
            problems.append('%s not scheduled but published under %s'
                            % (name, server))

    print('[%s] %s' % (label, 'OK' if not problems else 'VIOLATION'))
    for p in problems:
        print('    ' + p)
    return problems


def model(m):
    return {n: (a.server, a.identity, a.placement_expiry)
            for n, a in sorted(m.cell.apps.items())}


def obs1():
    print('--- O1: server definition removed while it holds an instance')
    b = MemBackend()
    make_cell(b, ['s1'], mem='4G')
    m = new_master(b)
    m.load_model()
    m.init_schedule()
    add_app(b, 'foo.web#0000000001', mem='3G')
    sync_scheduled(m)
    m.reschedule()
    problems = check(m, 'placed')
    # /servers/s1 is removed and a servers event is queued.  (masterapi.
    # delete_server also deletes /placement/s1 on the client side; here the
    # definition vanishes without that, the master alone does not clean up.)
    b.delete(z.path.server('s1'))
    b.put(z.path.event('000-servers-0000000001'), ['s1'])
    m.process_events(b.list(z.EVENTS))
    m.reschedule()
    problems += check(m, 'server definition removed, next cycle')
    print('    model:', model(m))
    return problems


def obs2():
    print('--- O2: identity group resized while a member stays placed')
    b = MemBackend()
    make_cell(b, ['s1'])
    b.put(z.path.identity_group('foo.ident'), {'count': 2})
    m = new_master(b)
    m.load_model()
    m.init_schedule()
    add_app(b, 'foo.web#0000000001', identity_group='foo.ident')
    sync_scheduled(m)
    m.reschedule()
    problems = check(m, 'placed', strict_count=True)
    b.put(z.path.identity_group('foo.ident'), {'count': 5})
    b.put(z.path.event('000-identity_groups-0000000002'), None)
    m.process_events(b.list(z.EVENTS))
    m.reschedule()
    problems += check(m, 'group resized 2 -> 5, next cycle',
                      strict_count=True)
    print('    record:', b.get('/placement/s1/foo.web#0000000001'))
    return problems


if __name__ == '__main__':
    seen = obs1() + obs2()
    sys.exit(1 if seen else 0)
