"""C13 clean-tree observations (UNCHANGED tree): two histories in which
AppCfgMgr._synchronize does not make running/ follow cache/ because a
previous container of the same instance is still linked from cleanup/.

Both come from the `elif ... cleanup ...: cached.pop(appname, None)` branch of
_synchronize, which drops the instance's cache entry without comparing
cached[appname] with the container that is in cleanup.

Observation 1 (deterministic)
  I runs as container X; cache/I is deleted -> X moved to cleanup/X (cleanup
  service has not finished yet); manager goes idle ('.ready' removed); I is
  scheduled on this node again (cache/I re-created => new unique id X');
  '.ready' created -> _synchronize.  X is found in cleanup, the branch pops
  cached[I] (which names X', not X), so X' is never configured: after the
  synchronisation cache/I has no running link, and nothing will configure it
  until the next restart / ready cycle.

Observation 2 (depends on set iteration order, shown over 16 instances)
  I runs as X; while idle cache/I is replaced; resync -> X -> cleanup/X,
  new X' configured and running (all correct).  Now appcfgmgr restarts while
  X is still in cleanup.  `configured` holds both X and X' (same instance I).
  If X is visited first, the cleanup branch pops cached[I]; X' is then seen as
  "running but not in cache" and is TERMINATED although its manifest is
  unchanged, and it is not configured again either.

Exit 1 when either observation shows on the tree under TM_LIB.
"""
import os
import sys
sys.path.insert(0, os.environ['TM_LIB'])

import logging
import shutil
import tempfile
import warnings
from unittest import mock

warnings.simplefilter('ignore')
logging.basicConfig(level=logging.CRITICAL)

from treadmill import appcfgmgr        # noqa: E402
from treadmill import context          # noqa: E402

MANIFEST = """\
proid: proid
environment: dev
cpu: 10%
memory: {mem}
disk: 100M
services:
- name: web
  command: /bin/true
  restart: {{limit: 3, interval: 60}}
"""


class FakeRuntime:
    """Stands in for the (not installed) runtime plug-in."""
    name = 'linux'

    @classmethod
    def manifest(cls, _tm_env, manifest):
        for svc in manifest['services']:
            svc.setdefault('environ', [])


def external_world():
    return [
        mock.patch('treadmill.nodedata.get', return_value={}),
        mock.patch('treadmill.supervisor.control_svscan'),
        mock.patch('treadmill.subproc.resolve',
                   side_effect=lambda exe: '/opt/' + exe),
        mock.patch('treadmill.subproc.get_aliases', return_value={}),
        mock.patch('treadmill.runtime.get_runtime_cls',
                   return_value=FakeRuntime),
    ]


def new_mgr(root):
    mgr = appcfgmgr.AppCfgMgr(root=root, runtime='linux')
    env = mgr.tm_env
    for path in (env.cache_dir, env.apps_dir, env.running_dir,
                 env.cleanup_dir, env.app_events_dir):
        os.makedirs(path, exist_ok=True)
    return mgr


def write_cache(env, instance, mem='100M'):
    """Same way eventmgr does it: temp dot file then rename."""
    tmp = os.path.join(env.cache_dir, '.%s-tmp' % instance)
    with open(tmp, 'w') as f:
        f.write(MANIFEST.format(mem=mem))
    path = os.path.join(env.cache_dir, instance)
    os.replace(tmp, path)
    return path


def links(dirname):
    res = {}
    for name in sorted(os.listdir(dirname)):
        path = os.path.join(dirname, name)
        if name.startswith('.') or not os.path.islink(path):
            continue
        res[name] = os.path.basename(os.readlink(path))
    return res


def snapshot(env):
    return {
        'cache': sorted(n for n in os.listdir(env.cache_dir)
                        if not n.startswith('.')),
        'apps': sorted(os.listdir(env.apps_dir)),
        'running': links(env.running_dir),
        'cleanup': links(env.cleanup_dir),
    }


def check_links(step, snap, problems):
    """A container is referenced by at most one link."""
    for container in snap['apps']:
        refs = ['running/' + n for n, t in snap['running'].items()
                if t == container]
        refs += ['cleanup/' + n for n, t in snap['cleanup'].items()
                 if t == container]
        if len(refs) > 1:
            problems.append('%s: container %s referenced by %s'
                            % (step, container, refs))


def check_follows_cache(step, snap, problems):
    """Running links are exactly the cached manifests."""
    if sorted(snap['running']) != snap['cache']:
        problems.append('%s: running %s != cache %s'
                        % (step, sorted(snap['running']), snap['cache']))


def show(step, snap):
    print('--- %s' % step)
    for key in ('cache', 'apps', 'running', 'cleanup'):
        print('    %-8s %s' % (key, snap[key]))


def obs1(root, problems):
    mgr = new_mgr(root)
    env = mgr.tm_env
    ready = os.path.join(env.cache_dir, '.ready')
    inst = 'proid.app#0000000001'

    open(ready, 'w').close()
    mgr._on_created(ready)
    path = write_cache(env, inst)
    mgr._on_created(path)
    old = snapshot(env)['running'][inst]

    os.unlink(path)
    mgr._on_deleted(path)
    snap = snapshot(env)
    show('obs1: cache entry deleted, container in cleanup', snap)

    os.unlink(ready)
    mgr._on_deleted(ready)
    mgr._on_created(write_cache(env, inst, mem='200M'))
    open(ready, 'w').close()
    mgr._on_created(ready)
    snap = snapshot(env)
    show('obs1: idle, re-cached, ready -> resynchronisation', snap)
    check_links('obs1', snap, problems)
    check_follows_cache('obs1', snap, problems)
    if snap['running'].get(inst) == old:
        problems.append('obs1: old container restarted')


def obs2(root, problems):
    mgr = new_mgr(root)
    env = mgr.tm_env
    ready = os.path.join(env.cache_dir, '.ready')
    insts = ['proid.svc#%010d' % i for i in range(1, 17)]

    open(ready, 'w').close()
    mgr._on_created(ready)
    for inst in insts:
        mgr._on_created(write_cache(env, inst))
    os.unlink(ready)
    mgr._on_deleted(ready)
    for inst in insts:
        mgr._on_created(write_cache(env, inst, mem='200M'))
    open(ready, 'w').close()
    mgr._on_created(ready)
    snap = snapshot(env)
    check_links('obs2/resync', snap, problems)
    check_follows_cache('obs2/resync', snap, problems)
    before = dict(snap['running'])
    print('--- obs2: after replacing 16 manifests while idle + resync: '
          '%d running, %d in cleanup'
          % (len(snap['running']), len(snap['cleanup'])))

    # restart while the old containers are still in cleanup
    mgr = new_mgr(root)
    open(ready, 'w').close()
    mgr._on_modified(ready)
    snap = snapshot(env)
    lost = sorted(set(before) - set(snap['running']))
    print('--- obs2: after restart + resync: %d running, %d in cleanup'
          % (len(snap['running']), len(snap['cleanup'])))
    print('    running containers with unchanged manifest that were '
          'terminated: %d of %d' % (len(lost), len(before)))
    for inst in lost:
        print('      %s (%s)' % (inst, before[inst]))
    check_links('obs2/restart', snap, problems)
    if lost:
        problems.append('obs2: %d running containers with unchanged manifests '
                        'terminated by a restart resync: %s'
                        % (len(lost), lost))
    check_follows_cache('obs2/restart', snap, problems)


def main():
    problems = []
    patches = external_world()
    for p in patches:
        p.start()
    roots = []
    try:
        context.GLOBAL.cell = 'test'
        context.GLOBAL.zk.url = 'zookeeper://foo@bar:1234'
        for func in (obs1, obs2):
            root = tempfile.mkdtemp(prefix='c13obs-')
            roots.append(root)
            func(root, problems)
    finally:
        for p in patches:
            p.stop()
        for root in roots:
            shutil.rmtree(root, ignore_errors=True)

    if problems:
        print('PROPERTY VIOLATED ON THIS TREE:')
        for line in problems:
            print('  ' + line)
        return 1
    print('property holds')
    return 0


if __name__ == '__main__':
    sys.exit(main())
