"""C18 observations on the UNCHANGED tree (see observations.md).

obs 1: the payload (node data) of a trace event is not carried into the
       snapshot: cleanup_trace archives the event name with data = NULL and
       deletes the node, so the payload is neither live nor retrievable.
obs 2: cleanup_finished reads all records first and deletes by path later,
       without a version check: a record that is rewritten (publish of a
       later terminal event -> zkutils.put) between the read and the delete is
       deleted although it is now younger than the expiry, and the snapshot
       holds only the older content.

exit 1 when at least one of the two is seen (expected on the clean tree).
"""

import os
import sys
sys.path.insert(0, os.environ['TM_LIB'])

# pylint: disable=wrong-import-position
import collections
import shutil
import sqlite3
import tempfile
import zlib

from unittest import mock

import kazoo.exceptions

NOW = 1600000000.0
EXPIRES = 300

Stat = collections.namedtuple('Stat', 'created last_modified children_count')


class FakeZk:
    """Minimal in-memory ZooKeeper (only what the archiver uses)."""

    def __init__(self):
        self.now = NOW
        self.nodes = {'/': (b'', NOW)}
        self.kids = collections.defaultdict(set)
        self.seq = collections.Counter()
        self.on_create = None

    def make_default_acl(self, acl):
        return acl

    def make_servers_acl(self):
        return None

    def set_acls(self, path, acls, version=-1):
        pass

    @staticmethod
    def _split(path):
        parent, name = path.rsplit('/', 1)
        return parent or '/', name

    def exists(self, path, watch=None):
        return path in self.nodes

    def get_children(self, path, watch=None):
        if path not in self.nodes:
            raise kazoo.exceptions.NoNodeError(path)
        return sorted(self.kids[path])

    def get(self, path, watch=None):
        if path not in self.nodes:
            raise kazoo.exceptions.NoNodeError(path)
        data, mtime = self.nodes[path]
        return data, Stat(mtime, mtime, len(self.kids[path]))

    def create(self, path, value=b'', acl=None, ephemeral=False,
               sequence=False, makepath=False):
        parent, name = self._split(path)
        if parent not in self.nodes:
            if not makepath:
                raise kazoo.exceptions.NoNodeError(parent)
            self.create(parent, b'', makepath=True)
        if sequence:
            name = '%s%010d' % (name, self.seq[parent])
            path = parent.rstrip('/') + '/' + name
            self.seq[parent] += 1
        if path in self.nodes:
            raise kazoo.exceptions.NodeExistsError(path)
        self.nodes[path] = (value, self.now)
        self.kids[parent].add(name)
        if self.on_create:
            self.on_create(path)
        return path

    def set(self, path, value, version=-1):
        if path not in self.nodes:
            raise kazoo.exceptions.NoNodeError(path)
        self.nodes[path] = (value, self.now)

    def delete(self, path, version=-1, recursive=False):
        if path not in self.nodes:
            raise kazoo.exceptions.NoNodeError(path)
        if self.kids[path]:
            raise kazoo.exceptions.NotEmptyError(path)
        parent, name = self._split(path)
        del self.nodes[path]
        self.kids[parent].discard(name)


def snapshot_rows(zkclient, history, table, tmpdir):
    """All (name, data) rows of all snapshots below history."""
    rows = []
    for node in zkclient.get_children(history):
        data, _stat = zkclient.get(history + '/' + node)
        fname = os.path.join(tmpdir, node)
        with open(fname, 'wb') as f:
            f.write(zlib.decompress(data))
        conn = sqlite3.connect(fname)
        rows.extend(conn.execute('SELECT name, data FROM %s' % table))
        conn.close()
        os.unlink(fname)
    return rows


def new_zk():
    """Fresh fake with the top level nodes."""
    zkclient = FakeZk()
    for path in ('/scheduled', '/placement', '/trace', '/trace.history',
                 '/finished', '/finished.history'):
        zkclient.create(path, b'', makepath=True)
    return zkclient


def obs_payload(tmpdir):
    """Payload of an archived trace event."""
    from treadmill.trace.app import zk as app_zk
    from treadmill import zknamespace as z

    zkclient = new_zk()
    inst = 'proid.app#0000000007'
    payload = b'{"exception": "image pull failed", "detail": "..."}'
    when = '%.2f' % (NOW - 4000)
    app_zk.publish(zkclient, when, inst, 'aborted', 'image', payload)
    shard = z.path.trace(inst)
    (event,) = zkclient.get_children(shard)
    print('obs 1: live event %s/%s' % (shard, event))
    print('       payload before archiving: %r'
          % zkclient.get(shard + '/' + event)[0])

    app_zk.cleanup_trace(zkclient, 1, EXPIRES)
    rows = snapshot_rows(zkclient, '/trace.history', 'trace', tmpdir)
    print('       live after archiving: %r, snapshot rows: %r'
          % (zkclient.get_children(shard), rows))
    lost = (not zkclient.get_children(shard) and
            all(data is None for _name, data in rows))
    print('       payload lost: %s' % lost)
    return lost


def obs_finished_race(tmpdir):
    """Record rewritten between the read and the delete."""
    from treadmill.trace.app import zk as app_zk

    zkclient = new_zk()
    inst = 'proid.app#0000000009'
    # 'killed' was published long ago (expired record) ...
    zkclient.now = NOW - 4000
    app_zk.publish(zkclient, '%.2f' % (NOW - 4000), inst, 'killed', 'oom',
                   None)
    zkclient.now = NOW
    old = zkclient.get('/finished/' + inst)[0]

    # ... and the delayed 'finished' event of the same instance is published
    # while the archiver uploads its snapshot (after it read the records).
    def concurrent_publish(path):
        if path.startswith('/finished.history/'):
            zkclient.on_create = None
            app_zk.publish(zkclient, '%.2f' % (NOW - 1), inst, 'finished',
                           '137.9', None)
            print('       concurrently rewritten to: %r'
                  % zkclient.get('/finished/' + inst)[0])

    zkclient.on_create = concurrent_publish
    print('obs 2: record before: %r' % old)
    app_zk.cleanup_finished(zkclient, 1, EXPIRES)
    live = zkclient.get_children('/finished')
    rows = snapshot_rows(zkclient, '/finished.history', 'finished', tmpdir)
    print('       live after: %r' % live)
    print('       snapshot rows: %r' % rows)
    lost = (inst not in live and
            not any('137.9' in (data or '') for _name, data in rows))
    print('       young rewritten record deleted and not in a snapshot: %s'
          % lost)
    return lost


def main():
    """Return 1 when an observation reproduces."""
    tmpdir = tempfile.mkdtemp()
    # The library's own temp files (sqlite images) go there too.
    tempfile.tempdir = tmpdir
    try:
        with mock.patch('time.time', mock.Mock(return_value=NOW)):
            seen1 = obs_payload(tmpdir)
            seen2 = obs_finished_race(tmpdir)
    finally:
        tempfile.tempdir = None
        shutil.rmtree(tmpdir)
    print('RESULT: obs1=%s obs2=%s' % (seen1, seen2))
    return 1 if (seen1 or seen2) else 0


if __name__ == '__main__':
    sys.exit(main())
