"""Clean-tree observation for C15 (LDAP entries): LdapObject.update() with a
plain list attribute set to [] (not None) is a silent no-op, so the object read
back differs from the object written.  _dict_2_entry() emits nothing at all for
an empty list (`if value:`), hence Admin.update() neither fetches nor deletes
the old attribute.  ({'traits': None} does clear it.)

Only the LDAP server is faked.  exit 1 when the mismatch is observed.
"""
import os
import sys
sys.path.insert(0, os.environ['TM_LIB'])

import copy  # noqa: E402

import ldap3  # noqa: E402

from treadmill.admin import _ldap  # noqa: E402


class FakeDirectory:
    def __init__(self):
        self.entries = {}

    def add(self, dn, object_class=None, attributes=None):
        self.entries[dn] = {
            k: list(v) if isinstance(v, list) else [v]
            for k, v in (attributes or {}).items() if v not in ([], None)
        }

    def modify(self, dn, changes):
        entry = self.entries[dn]
        for attr, ops in changes.items():
            for op, values in ops:
                if op == ldap3.MODIFY_ADD:
                    entry.setdefault(attr, []).extend(values)
                elif op == ldap3.MODIFY_REPLACE:
                    entry[attr] = list(values)
                elif op == ldap3.MODIFY_DELETE:
                    entry.pop(attr, None)

    def paged_search(self, search_base=None, search_filter=None,
                     search_scope=None, attributes=None, dirty=False):
        entry = self.entries.get(search_base)
        if entry is None:
            return iter([])
        wanted = {a.lower() for a in attributes}
        return iter([{'dn': search_base, 'attributes': {
            k: copy.deepcopy(v) for k, v in entry.items()
            if k.lower() in wanted or k.split(';', 1)[0].lower() in wanted
        }}])


def main():
    admin = _ldap.Admin(None, 'dc=test,dc=com')
    directory = FakeDirectory()
    admin.add = directory.add
    admin.modify = lambda dn, ch: ch and directory.modify(dn, ch)
    admin.paged_search = directory.paged_search

    rc = 0
    srv = _ldap.Server(admin)
    srv.create('host1', {'cell': 'c1', 'partition': 'p', 'traits': ['a', 'b']})
    written = {'cell': 'c1', 'partition': 'p', 'traits': []}
    srv.update('host1', written)
    read = srv.get('host1', dirty=True)
    print('server  written traits=%r  read traits=%r'
          % (written['traits'], read['traits']))
    if read['traits'] != written['traits']:
        rc = 1

    part = _ldap.Partition(admin)
    part.create(['p1', 'c1'], {'cpu': '1%', 'memory': '1G', 'disk': '1G',
                               'systems': [1, 2]})
    part.update(['p1', 'c1'], {'systems': []})
    read = part.get(['p1', 'c1'], dirty=True)
    print('partition written systems=[]  read systems=%r' % read['systems'])
    if read['systems'] != []:
        rc = 1

    print('VIOLATED (clean tree)' if rc else 'HOLDS')
    return rc


if __name__ == '__main__':
    sys.exit(main())
