"""C02 observation on the UNCHANGED tree: after a 'cell' reload that leaves the
cell with fewer top level buckets than the spread strategy of an affinity has
already walked, the next cycle does not place a fitting instance: Cell.put
raises IndexError out of SpreadStrategy.suggested_node (stale current_idx,
Node.reset_children() replaced the children list by a shorter one).

exit 0: probe placed, exit 1: probe not placed (cycle raised / left pending).
"""

import os
import sys

sys.path.insert(0, os.environ['TM_LIB'])

import collections  # noqa: E402
import logging  # noqa: E402
import time  # noqa: E402

from treadmill import scheduler  # noqa: E402
from treadmill import zknamespace as z  # noqa: E402
from treadmill.scheduler import backend as be  # noqa: E402
from treadmill.scheduler import loader  # noqa: E402

logging.basicConfig(level=logging.CRITICAL)

DAY = 24 * 60 * 60


class MemBackend(be.Backend):
    """In-memory stand-in for the ZooKeeper backend."""

    Meta = collections.namedtuple('Meta', 'ctime')

    def __init__(self):
        super(MemBackend, self).__init__()
        self.nodes = {}
        self.ctime = {}

    def _norm(self, path):
        return '/' + path.strip('/')

    def list(self, path):
        path = self._norm(path)
        if path not in self.nodes:
            raise be.ObjectNotFoundError()
        prefix = path.rstrip('/') + '/'
        return sorted(
            p[len(prefix):] for p in self.nodes
            if p.startswith(prefix) and '/' not in p[len(prefix):]
        )

    def get(self, path):
        path = self._norm(path)
        if path not in self.nodes:
            raise be.ObjectNotFoundError()
        return self.nodes[path]

    def get_with_metadata(self, path):
        return self.get(path), self.Meta(self.ctime[self._norm(path)])

    def put(self, path, value):
        path = self._norm(path)
        parent = os.path.dirname(path)
        if parent != '/' and parent not in self.nodes:
            self.put(parent, None)
        if path not in self.nodes:
            self.ctime[path] = time.time() * 1000
        self.nodes[path] = value

    def exists(self, path):
        return self._norm(path) in self.nodes

    def ensure_exists(self, path):
        if not self.exists(path):
            self.put(path, None)

    def delete(self, path):
        path = self._norm(path)
        for p in [p for p in self.nodes
                  if p == path or p.startswith(path + '/')]:
            del self.nodes[p]
            self.ctime.pop(p, None)

    def update(self, path, data, check_content=False):
        self.put(path, data)

    def event_object(self):
        return None


def oracle(cell, app):
    """Scan the leaf servers directly: names of the servers the app fits."""
    fits = []
    now = time.time()
    for name, srv in sorted(cell.members().items()):
        if srv.state is not scheduler.State.up:
            continue
        if app.allocation.label not in srv.labels:
            continue
        if not srv.traits.has(app.traits):
            continue
        if app.lease and not now + app.lease < srv.valid_until:
            continue
        if any(d > f for d, f in zip(app.demand, srv.free_capacity)):
            continue
        node, room = srv, True
        while node is not None:
            limit = dict(app.affinity.limits).get(node.level, float('inf'))
            if not node.affinity_counters[app.affinity.name] < limit:
                room = False
            node = node.parent
        if room:
            fits.append(name)
    return fits


def main():
    scheduler.DIMENSION_COUNT = 3
    now = int(time.time())
    bck = MemBackend()

    for path in [z.TRAITS, z.PARTITIONS, z.BUCKETS, z.CELL, z.SERVERS,
                 z.SERVER_PRESENCE, z.PLACEMENT, z.SCHEDULED,
                 z.IDENTITY_GROUPS, z.BLACKEDOUT_SERVERS]:
        bck.ensure_exists(path)
    bck.put(z.TRAITS, [])
    for idx in (1, 2, 3):
        pod, srv = 'pod:p%d' % idx, 's%d' % idx
        bck.put(z.path.bucket(pod), {'parent': None})
        bck.put(z.CELL + '/' + pod, None)
        bck.put(z.path.server(srv),
                {'memory': '8G', 'cpu': '400%', 'disk': '100G',
                 'parent': pod, 'up_since': now})
        bck.put(z.path.server_presence(srv), {})
        bck.put(z.path.placement(srv), {'state': 'up', 'since': now})
        bck.put(z.path.scheduled('proid.web#000000010%d' % idx),
                {'memory': '1G', 'cpu': '50%', 'disk': '2G',
                 'affinity': 'proid.web'})

    ldr = loader.Loader(bck, 'demo-cell')
    ldr.load_model()
    cell = ldr.cell
    cell.schedule()
    print('placement    :', {n: a.server for n, a in cell.apps.items()})
    print('strategy idx :', cell.affinity_strategies['proid.web'].current_idx)

    # The instance on s3 is deleted, so that nothing needs a new placement.
    gone = 'proid.web#0000000103'
    bck.delete(z.path.scheduled(gone))
    ldr.remove_app(gone)
    cell.schedule()

    # pod:p3 leaves the cell ('cell' event -> Loader.load_cell()).
    bck.delete(z.CELL + '/pod:p3')
    ldr.load_cell()
    cell.schedule()
    again = cell.schedule()
    quiescent = all(b == a and eb == ea for _n, b, eb, a, ea in again)
    print('after reload :', {n: a.server for n, a in cell.apps.items()},
          'quiescent:', quiescent)
    print('cell children:', len(cell.children))

    probe = 'proid.web#0000000104'
    bck.put(z.path.scheduled(probe),
            {'memory': '1G', 'cpu': '50%', 'disk': '2G',
             'affinity': 'proid.web'})
    ldr.load_app(probe)
    app = cell.apps[probe]
    expected = oracle(cell, app)
    print('oracle fits  :', expected)
    try:
        cell.schedule()
    except Exception as err:  # pylint: disable=broad-except
        print('cycle raised : %r' % err)
    print('probe placed :', app.server)
    if expected and app.server is None:
        print('VIOLATED: probe fits %r but was not placed' % expected)
        return 1
    return 0


if __name__ == '__main__':
    sys.exit(main())
