"""C05 observation on the UNCHANGED tree: master restart over a store that
records one instance under two servers with two different identities.

Loader.restore_placements() restores the instance on both servers (forcing
the identity recorded on each, one after the other), then detects the
"Integrity error" and removes it from both. Application.force_set_identity
overwrites the identity forced first without giving it back, so that
identity is held by nobody and is not available either: the next instance of
the group stays pending although only one of two identities is in use.

exit 0: property holds, exit 1: violated.
"""

import os
import sys

sys.path.insert(0, os.environ['TM_LIB'])

import collections  # noqa: E402
import logging  # noqa: E402
import threading  # noqa: E402
import time  # noqa: E402

from treadmill import scheduler  # noqa: E402
from treadmill import zknamespace as z  # noqa: E402
from treadmill.scheduler import backend as be  # noqa: E402
from treadmill.scheduler import master  # noqa: E402

logging.disable(logging.CRITICAL)
scheduler.DIMENSION_COUNT = 3

Meta = collections.namedtuple('Meta', 'ctime')


class MemBackend(be.Backend):
    """ZooKeeper stand-in: a dict of path -> (data, ctime in ms)."""

    def __init__(self):
        super(MemBackend, self).__init__()
        self.nodes = {'/': (None, time.time() * 1000)}

    def _mk(self, path, data):
        parent = os.path.dirname(path)
        if parent and parent not in self.nodes:
            self._mk(parent, None)
        ctime = self.nodes.get(path, (None, time.time() * 1000))[1]
        self.nodes[path] = (data, ctime)

    def list(self, path):
        if path not in self.nodes:
            raise be.ObjectNotFoundError()
        return sorted(
            os.path.basename(p) for p in self.nodes
            if p != '/' and os.path.dirname(p) == path
        )

    def get(self, path):
        return self.get_with_metadata(path)[0]

    def get_with_metadata(self, path):
        if path not in self.nodes:
            raise be.ObjectNotFoundError()
        data, ctime = self.nodes[path]
        return data, Meta(ctime)

    def put(self, path, value):
        self._mk(path, value)

    def exists(self, path):
        return path in self.nodes

    def ensure_exists(self, path):
        if path not in self.nodes:
            self._mk(path, None)

    def delete(self, path):
        for p in [p for p in self.nodes
                  if p == path or p.startswith(path + '/')]:
            del self.nodes[p]

    def update(self, path, data, check_content=False):
        self._mk(path, data)

    def event_object(self):
        return threading.Event()


GROUP = 'proid.g'
SEQ = [0]
FAILURES = []


def post_event(zk, mstr, resource, payload):
    """What masterapi.create_event does, then the master handles it."""
    SEQ[0] += 1
    node = '000-%s-%010d' % (resource, SEQ[0])
    zk.put(z.path.event(node), payload)
    mstr.process_events(zk.list(z.EVENTS))


def check(zk, mstr, label):
    """Property C05 at the end of a scheduling cycle."""
    cell = mstr.cell
    problems = []
    by_group = collections.defaultdict(list)
    for app in cell.apps.values():
        if app.identity_group:
            by_group[app.identity_group].append(app)

    print('--- %s' % label)
    for name, apps in sorted(by_group.items()):
        group = cell.identity_groups.get(name)
        count = group.count if group is not None else 0
        available = set(group.available) if group is not None else set()
        print('  group %s: count=%s available=%s' % (
            name, count, sorted(available)))
        held = collections.Counter()
        pending = []
        for app in sorted(apps, key=lambda a: a.name):
            print('    %-26s server=%-4s identity=%s' % (
                app.name, app.server, app.identity))
            if app.server is None:
                pending.append(app.name)
                if app.identity is not None:
                    problems.append('%s not placed but holds identity %s' %
                                    (app.name, app.identity))
            elif app.identity is None:
                problems.append('%s placed without identity' % app.name)
            if app.identity is not None:
                held[app.identity] += 1
                if app.identity >= count:
                    problems.append('%s identity %s >= count %s' %
                                    (app.name, app.identity, count))
        for ident, num in held.items():
            if num > 1:
                problems.append('group %s: identity %s held by %d instances'
                                % (name, ident, num))
        # A free identity is available to the first instance that can use it.
        lost = set(range(count)) - set(held) - available
        if lost:
            problems.append(
                'group %s: identities %s are held by no instance and are '
                'not available either (pending: %s)' %
                (name, sorted(lost), pending or 'none'))
        both = set(held) & available
        if both:
            problems.append('group %s: identities %s are held and available '
                            'at the same time' % (name, sorted(both)))

    # The published side: /placement/<server>/<instance>.
    published = collections.defaultdict(collections.Counter)
    for server in zk.list(z.PLACEMENT):
        for inst in zk.list(z.path.placement(server)):
            data = zk.get(z.path.placement(server, inst)) or {}
            app = cell.apps.get(inst)
            if app is not None and app.identity_group:
                published[app.identity_group][data.get('identity')] += 1
    for name, idents in published.items():
        for ident, num in idents.items():
            if ident is None:
                problems.append('group %s: placement published without '
                                'identity' % name)
            elif num > 1:
                problems.append('group %s: identity %s published for %d '
                                'instances' % (name, ident, num))

    for problem in problems:
        print('  VIOLATION: %s' % problem)
    FAILURES.extend(problems)


def main():
    zk = MemBackend()
    manifest = {'memory': '1G', 'cpu': '10%', 'disk': '1G',
                'affinity': 'proid.web', 'identity_group': GROUP}
    server = {'memory': '16G', 'cpu': '400%', 'disk': '128G',
              'parent': 'rack:r1', 'up_since': 100}

    zk.put('/cell/pod:p1', {})
    zk.put('/buckets/pod:p1', {})
    zk.put('/buckets/rack:r1', {'parent': 'pod:p1'})
    for name in ('s1', 's2'):
        zk.put(z.path.server(name), dict(server))
        zk.put(z.path.server_presence(name), {})
        zk.put(z.path.placement(name), {'state': 'up', 'since': 100})
    zk.put(z.path.identity_group(GROUP), {'count': 2})
    zk.put(z.path.scheduled('proid.web#0000000001'), dict(manifest))
    zk.put(z.path.scheduled('proid.web#0000000002'), dict(manifest))
    # The inconsistent record: the same instance under both servers.
    zk.put(z.path.placement('s1', 'proid.web#0000000001'),
           {'identity': 0, 'identity_count': 2, 'expires': 0})
    zk.put(z.path.placement('s2', 'proid.web#0000000001'),
           {'identity': 1, 'identity_count': 2, 'expires': 0})

    mstr = master.Master(zk, 'demo-cell')
    mstr.create_rootns()
    mstr.load_model()
    mstr.init_schedule()
    check(zk, mstr, '1. first cycle after restart')
    mstr.reschedule()
    check(zk, mstr, '2. next cycle')

    if FAILURES:
        print('RESULT: property C05 VIOLATED (%d findings)' % len(FAILURES))
        return 1
    print('RESULT: property C05 holds in every cycle')
    return 0


if __name__ == '__main__':
    sys.exit(main())
