import os, sys
sys.path.insert(0, os.environ['TM_LIB'])
# clean_obs: on the UNCHANGED tree, a running master that processes a servers
# event for a server whose /servers node is gone (placement records still
# there) publishes the next cycle without removing the old records; any stop
# after the first put leaves instances under two servers, and the running
# master then fails its own check_placement_integrity although it repaired the
# records. Exit 1 when observed.
import collections, copy, threading, logging
from treadmill.scheduler import backend as be, master, loader
from treadmill import scheduler, zknamespace as z

scheduler.DIMENSION_COUNT = 3

class Crash(Exception):
    pass

Meta = collections.namedtuple('Meta', 'ctime')

class MemBackend(be.Backend):
    def __init__(self, nodes=None, clock=None):
        super().__init__()
        self.nodes = nodes if nodes is not None else {'/': [None, 0]}
        self.clock = clock or [1000]
        self.ops = []
        self.crash_at = None
        self.nmut = 0
    def clone(self):
        return MemBackend(copy.deepcopy(self.nodes), [self.clock[0]])
    def _tick(self):
        self.clock[0] += 1000
        return self.clock[0]
    def _mut(self, op, path):
        if self.crash_at is not None and self.nmut == self.crash_at:
            raise Crash('%s %s' % (op, path))
        self.nmut += 1
        self.ops.append((op, path))
    def _mk(self, path):
        if path in self.nodes:
            return
        parent = os.path.dirname(path)
        if parent != path:
            self._mk(parent)
        self.nodes[path] = [None, self._tick()]
    def list(self, path):
        if path not in self.nodes:
            raise be.ObjectNotFoundError()
        pfx = path.rstrip('/') + '/'
        return sorted(p[len(pfx):] for p in self.nodes
                      if p.startswith(pfx) and '/' not in p[len(pfx):] and p != '/')
    def get(self, path):
        return self.get_with_metadata(path)[0]
    def get_with_metadata(self, path):
        if path not in self.nodes:
            raise be.ObjectNotFoundError()
        data, ctime = self.nodes[path]
        return copy.deepcopy(data), Meta(ctime)
    def exists(self, path):
        return path in self.nodes
    def ensure_exists(self, path):
        if path not in self.nodes:
            self._mut('ensure_exists', path)
            self._mk(path)
    def put(self, path, value):
        self._mut('put', path)
        self._mk(path)
        self.nodes[path][0] = copy.deepcopy(value)
    def update(self, path, data, check_content=False):
        if path not in self.nodes:
            raise be.ObjectNotFoundError()
        if check_content and self.nodes[path][0] == data:
            return
        self._mut('update', path)
        self.nodes[path][0] = copy.deepcopy(data)
    def delete(self, path):
        self._mut('delete', path)
        for p in [p for p in self.nodes if p == path or p.startswith(path + '/')]:
            del self.nodes[p]
    def event_object(self):
        return threading.Event()

def placements(bk):
    res = collections.defaultdict(list)
    for srv in bk.list(z.PLACEMENT):
        for app in bk.list(z.path.placement(srv)):
            res[app].append(srv)
    return dict(res)

def dups(bk):
    return {a: s for a, s in placements(bk).items() if len(s) > 1}

def new_master(bk):
    m = master.Master(bk, 'cell')
    m.create_rootns()
    m.load_model()
    m.init_schedule()
    return m

def model_eq_store(m):
    bad = []
    store = placements(m.backend)
    for name, app in m.cell.apps.items():
        st = store.get(name, [])
        want = [app.server] if app.server else []
        if sorted(st) != want:
            bad.append((name, app.server, st))
        elif app.server:
            data = m.backend.get(z.path.placement(app.server, name))
            if data.get('identity') != app.identity or data.get('expires') != app.placement_expiry:
                bad.append((name, 'data', data, app.identity, app.placement_expiry))
    for name in store:
        if name not in m.cell.apps:
            bad.append((name, 'stale', store[name]))
    return bad

def base_state(nservers=3, apps=()):
    bk = MemBackend()
    m = master.Master(bk, 'cell')
    m.create_rootns()
    bk.put(z.path.bucket('pod:p1'), {'traits': None})
    bk.put(z.path.bucket('rack:r1'), {'traits': None, 'parent': 'pod:p1'})
    bk.put(z.path.cell('pod:p1'), {})
    for i in range(nservers):
        name = 's%d' % i
        bk.put(z.path.server(name), {'memory': '16G', 'disk': '128G', 'cpu': '400%', 'parent': 'rack:r1', 'up_since': 100})
        bk.put(z.path.server_presence(name), {})
    for name, manifest in apps:
        bk.put(z.path.scheduled(name), manifest)
    return bk

def check_restart(bk, label):
    """Start a new master on a copy of the crashed state."""
    errs = []
    d = dups(bk)
    if d:
        errs.append('%s: duplicates at crash: %r' % (label, d))
    b2 = bk.clone()
    try:
        m2 = new_master(b2)
        bad = model_eq_store(m2)
        if bad:
            errs.append('%s: after restart model != store: %r' % (label, bad))
        m2.check_placement_integrity()
    except Crash:
        raise
    except BaseException as err:  # assertion etc
        errs.append('%s: restart failed: %r' % (label, err))
    return errs

def crash_sweep(make, action, label):
    """make() -> (master, backend) ready; action(master) is the publication."""
    errs = []
    m = make()
    m.backend.nmut = 0
    action(m)
    total = m.backend.nmut
    for k in range(total + 1):
        m = make()
        bk = m.backend
        bk.nmut = 0
        bk.crash_at = k
        try:
            action(m)
        except Crash as c:
            pass
        bk.crash_at = None
        errs += check_restart(bk, '%s@%d/%d' % (label, k, total))
    return errs


APPS = [('foo.a#%010d' % i,
         {'memory': '1G', 'disk': '1G', 'cpu': '10%', 'affinity': 'foo.a'})
        for i in range(4)]


def make():
    bk = base_state(3, APPS)
    m = new_master(bk)
    assert not model_eq_store(m), model_eq_store(m)
    victim = m.cell.apps[APPS[0][0]].server
    # only the server node goes away (masterapi.delete_server interrupted
    # after its first delete, or any tool removing just /servers/<name>),
    # followed by the usual servers event.
    bk.delete(z.path.server(victim))
    bk.put(z.path.event('000-servers-0000000001'), [victim])
    m.process_events(bk.list(z.EVENTS))
    return m


def main():
    logging.basicConfig(level=logging.CRITICAL + 1)
    m = make()
    print('stored before the cycle:', placements(m.backend))
    print('model before the cycle :',
          {a.name: a.server for a in m.cell.apps.values()})
    errs = crash_sweep(make, lambda m: m.reschedule(), 'reschedule')
    m.reschedule()
    print('stored after the cycle :', placements(m.backend))
    try:
        m.check_placement_integrity()
    except AssertionError as err:
        errs.append('running master fails its integrity check (records '
                    'after its repair: %r): %r' % (placements(m.backend), err))
    for e in errs:
        print('OBSERVED', e)
    return 1 if errs else 0


if __name__ == '__main__':
    sys.exit(main())
