"""Observation on the UNCHANGED tree (C04, second sentence: the per-node
affinity counts the scheduler keeps equal the true counts).

A top level bucket is taken out of the cell (masterapi.cell_remove_bucket ->
'cell' event -> Loader.load_cell) while an instance runs on one of its servers,
a scheduling cycle runs, and the bucket is inserted again
(masterapi.cell_insert_bucket -> 'cell' event -> load_cell).

Cell._fix_invalid_placements un-places the instance by clearing app.server
only (the server is not in Cell.members() any more), so the detached server
keeps the instance in Server.apps and in its affinity counters.  When the
bucket comes back, add_node adds these stale counters to the cell: the cell
counts the instance twice, the old pod/server count an instance that is placed
elsewhere, and the same Application object sits in the apps map of two
servers.  A second instance with {'pod': 1} stays pending although pod:p1 is
really empty.

Exit 1 when the discrepancy is seen (clean tree), 0 otherwise.
"""

import os
import sys

sys.path.insert(0, os.environ['TM_LIB'])

import collections  # noqa: E402
import time  # noqa: E402

from treadmill import scheduler  # noqa: E402
from treadmill import zknamespace as z  # noqa: E402
from treadmill.scheduler import backend as be  # noqa: E402
from treadmill.scheduler import master  # noqa: E402


class _Meta:
    def __init__(self, ctime):
        self.ctime = ctime


class MemBackend(be.Backend):
    """In memory stand-in for the ZooKeeper backend."""

    def __init__(self):
        super(MemBackend, self).__init__()
        self.nodes = {'/': (None, _Meta(0))}
        self.clock = 1000

    def _mk(self, path):
        cur = ''
        for part in [part for part in path.split('/') if part]:
            cur = cur + '/' + part
            if cur not in self.nodes:
                self.clock += 1000
                self.nodes[cur] = (None, _Meta(self.clock))

    def list(self, path):
        if path not in self.nodes:
            raise be.ObjectNotFoundError()
        prefix = path.rstrip('/') + '/'
        return sorted(
            node[len(prefix):] for node in self.nodes
            if node.startswith(prefix) and '/' not in node[len(prefix):] and
            node != path
        )

    def get(self, path):
        if path not in self.nodes:
            raise be.ObjectNotFoundError()
        return self.nodes[path][0]

    def get_with_metadata(self, path):
        if path not in self.nodes:
            raise be.ObjectNotFoundError()
        return self.nodes[path]

    def put(self, path, value):
        self._mk(path)
        self.nodes[path] = (value, self.nodes[path][1])

    def exists(self, path):
        return path in self.nodes

    def ensure_exists(self, path):
        self._mk(path)

    def delete(self, path):
        for node in list(self.nodes):
            if node == path or node.startswith(path + '/'):
                del self.nodes[node]

    def update(self, path, data, check_content=False):
        if path not in self.nodes:
            raise be.ObjectNotFoundError()
        self.nodes[path] = (data, self.nodes[path][1])

    def event_object(self):
        raise Exception('not used')


def _nodes(node):
    yield node
    if not isinstance(node, scheduler.Server):
        for child in node.children_iter():
            for sub in _nodes(child):
                yield sub


def check(cell):
    """Kept counters against the instances placed under each node."""
    problems = []
    for node in _nodes(cell):
        servers = node.members()
        # true count: the instances whose placement (app.server) is below
        # the node.
        true = collections.Counter(
            app.affinity.name for app in cell.apps.values()
            if app.server in servers
        )
        kept = +node.affinity_counters
        if dict(kept) != dict(true):
            problems.append('counters of %s: kept %r, placed %r' % (
                node.name, dict(kept), dict(true)))
    holders = collections.defaultdict(list)
    for name, server in cell.members().items():
        for appname in server.apps:
            holders[appname].append(name)
    for appname, names in holders.items():
        if len(names) > 1:
            problems.append('%s is in the apps of %r' % (appname, names))
    return problems


def main():
    scheduler.DIMENSION_COUNT = 3
    limits = {'pod': 1}

    zk = MemBackend()
    for root in (z.BUCKETS, z.CELL, z.SERVERS, z.SERVER_PRESENCE,
                 z.PLACEMENT, z.SCHEDULED, z.PARTITIONS, z.IDENTITY_GROUPS,
                 z.BLACKEDOUT_SERVERS, z.EVENTS, z.RUNNING):
        zk.ensure_exists(root)

    up_since = int(time.time())
    for pod, server in (('pod:p1', 's1'), ('pod:p2', 's2')):
        zk.put(z.path.bucket(pod), {'traits': None})
        zk.ensure_exists(z.path.cell(pod))
        zk.put(z.path.server(server),
               {'memory': '16G', 'cpu': '400%', 'disk': '128G',
                'parent': pod, 'up_since': up_since})
        zk.put(z.path.server_presence(server), {})
        zk.put(z.path.placement(server), {'state': 'up', 'since': up_since})

    def _schedule(inst):
        zk.put(z.path.scheduled(inst),
               {'memory': '1G', 'cpu': '10%', 'disk': '1G',
                'affinity': 'x.a', 'affinity_limits': dict(limits)})

    _schedule('x.a#0000000001')

    cell_master = master.Master(zk, 'test-cell')
    cell_master.load_model()
    cell = cell_master.cell
    cell_master.init_schedule()
    app1 = cell.apps['x.a#0000000001']
    first = app1.server
    print('cycle 1: instance 1 on', first)
    first_pod = cell_master.servers[first].parent.name

    # The pod of the instance is taken out of the cell.
    zk.delete(z.path.cell(first_pod))
    cell_master.load_cell()
    cell_master.reschedule()
    print('cycle 2 (%s out of the cell): instance 1 on %s' % (
        first_pod, app1.server))

    # ... and put back.
    zk.ensure_exists(z.path.cell(first_pod))
    cell_master.load_cell()
    cell_master.reschedule()
    print('cycle 3 (%s back): instance 1 on %s' % (first_pod, app1.server))

    # A second instance: one pod is really empty.
    _schedule('x.a#0000000002')
    cell_master.process_scheduled(zk.list(z.SCHEDULED))
    cell_master.reschedule()
    app2 = cell.apps['x.a#0000000002']
    print('cycle 4: instance 1 on %s, instance 2 on %s' % (
        app1.server, app2.server))
    print('counters: %r' % {
        node.name: dict(+node.affinity_counters) for node in _nodes(cell)})

    problems = check(cell)
    if app2.server is None:
        problems.append(
            'instance 2 pending although %s holds no placed instance' %
            first_pod)

    if problems:
        for problem in problems:
            print('DISCREPANCY:', problem)
        return 1
    print('OK: counters are exact.')
    return 0


if __name__ == '__main__':
    sys.exit(main())
