"""C16 observations on the UNCHANGED tree (see observations.md).

case 1: a passthrough host name resolves to another address when the
        container is finished than it did when it was started: the passthrough
        rule file of the start is never removed (the FIXME in
        _finish._cleanup_network).
case 2: a passthrough host name that does not resolve: the start fails after
        it created DNAT/SNAT rules, endpoint specs and ip set entries, and
        every finish fails on the same lookup before removing anything.

exit 0: property holds, exit 1: violated.
"""
import os, sys; sys.path.insert(0, os.environ['TM_LIB'])

import logging
import shutil
import tempfile

from unittest import mock

logging.disable(logging.CRITICAL)

from treadmill import iptables
from treadmill import rulefile
from treadmill import endpoints
from treadmill import runtime
from treadmill import appcfg
from treadmill import subproc
from treadmill.runtime.linux import _run as app_run
from treadmill.runtime.linux import _finish as app_finish


class FakeIpsets:
    """Recording stand-in for the kernel IP sets (the `ipset` command)."""

    def __init__(self):
        self.sets = {}
        self.fail_next_rm = 0

    def add(self, target_set, entry):
        self.sets.setdefault(target_set, set()).add(entry)

    def rm(self, target_set, entry):
        if self.fail_next_rm:
            self.fail_next_rm -= 1
            # what iptables._ipset raises when the command exits non-zero
            raise subproc.CalledProcessError(
                1, ['ipset', '-exist', 'del', target_set, entry]
            )
        self.sets.setdefault(target_set, set()).discard(entry)

    def snapshot(self):
        return {k: sorted(v) for k, v in self.sets.items() if v}


class FakeNetworkService:
    """In-memory stand-in for the node network resource service."""

    def __init__(self, external_ip):
        self.external_ip = external_ip
        self.free = ['192.168.0.%d' % i for i in range(2, 20)]
        self.allocated = {}

    def make_client(self, _clientdir):
        return self

    def put(self, rsrc_id, _req):
        if rsrc_id not in self.allocated:
            self.allocated[rsrc_id] = {
                'vip': self.free.pop(0),
                'veth': 'veth.%d' % len(self.allocated),
                'gateway': '192.168.254.254',
                'external_ip': self.external_ip,
            }

    def wait(self, rsrc_id, timeout=None):
        return dict(self.allocated[rsrc_id])

    def get(self, rsrc_id):
        res = self.allocated.get(rsrc_id)
        return dict(res) if res is not None else None

    def delete(self, rsrc_id):
        res = self.allocated.pop(rsrc_id, None)
        if res is not None:
            self.free.insert(0, res['vip'])


def make_env(root, netsvc):
    apps_dir = os.path.join(root, 'apps')
    rules_dir = os.path.join(root, 'rules')
    endpoints_dir = os.path.join(root, 'endpoints')
    for d in (apps_dir, rules_dir, endpoints_dir):
        os.makedirs(d)
    return mock.Mock(
        root=root,
        apps_dir=apps_dir,
        metrics_dir=os.path.join(root, 'metrics'),
        archives_dir=os.path.join(root, 'archives'),
        app_events_dir=os.path.join(root, 'appevents'),
        rules=rulefile.RuleMgr(rules_dir, apps_dir),
        endpoints=endpoints.EndpointsMgr(endpoints_dir),
        svc_network=netsvc,
    )


def manifest_for(name, uniqueid):
    return {
        'app': name.split('#')[0],
        'name': name,
        'task': name.split('#')[1],
        'uniqueid': uniqueid,
        'proid': 'proid',
        'environment': 'dev',
        'cpu': '10%', 'memory': '100M', 'disk': '100M',
        'shared_network': False,
        'shared_ip': False,
        'endpoints': [
            {'name': 'http', 'port': 8000, 'proto': 'tcp'},
            {'name': 'ssh', 'port': 0, 'proto': 'tcp', 'type': 'infra'},
            {'name': 'stats', 'port': 9000, 'proto': 'udp'},
        ],
        'ephemeral_ports': {'tcp': 2, 'udp': 1},
        'passthrough': ['pt.example.com', '10.10.10.2'],
        'vring': {'cells': ['a'], 'rules': []},
        'services': [],
    }


def start(tm_env, manifest):
    """The network part of _run.run(), with the real library code."""
    unique_name = appcfg.manifest_unique_name(manifest)
    container_dir = os.path.join(tm_env.apps_dir, unique_name)
    data_dir = os.path.join(container_dir, 'data')
    os.makedirs(data_dir)
    client = tm_env.svc_network.make_client(
        os.path.join(data_dir, 'resources', 'network'))
    client.put(unique_name, {'environment': manifest['environment']})
    app_network = client.wait(unique_name)
    manifest['network'] = app_network
    sockets = runtime.allocate_network_ports(
        app_network['external_ip'], manifest)
    app = runtime.save_app(manifest, data_dir)
    app_run._unshare_network(tm_env, data_dir, app)
    return container_dir, sockets


def host_state(tm_env, ipsets):
    return {
        'rules': sorted(os.listdir(tm_env.rules.path)),
        'endpoints': sorted(os.listdir(tm_env.endpoints.path)),
        'ipsets': ipsets.snapshot(),
    }


import socket


class FakeDns:
    """Stand-in for the resolver."""

    def __init__(self):
        self.table = {}

    def gethostbyname(self, host):
        if host[0].isdigit():
            return host
        try:
            return self.table[host]
        except KeyError:
            raise socket.gaierror(-2, 'Name or service not known')


def case(name, dns_at_start, dns_at_finish):
    root = tempfile.mkdtemp(prefix='c16o-')
    ipsets = FakeIpsets()
    dns = FakeDns()
    patches = [
        mock.patch('socket.gethostbyname', dns.gethostbyname),
        mock.patch('treadmill.iptables.add_ip_set', ipsets.add),
        mock.patch('treadmill.iptables.rm_ip_set', ipsets.rm),
        mock.patch('treadmill.iptables.flush_cnt_conntrack_table',
                   mock.Mock()),
        mock.patch('treadmill.newnet.create_newnet', mock.Mock()),
        mock.patch('treadmill.plugin_manager.load', mock.Mock()),
        mock.patch('treadmill.apphook.cleanup', mock.Mock()),
        mock.patch('treadmill.rrdutils.flush_noexc', mock.Mock()),
        mock.patch('treadmill.runtime.archive_logs', mock.Mock()),
        mock.patch('treadmill.trace.post', mock.Mock()),
    ]
    for p in patches:
        p.start()
    try:
        print(name)
        netsvc = FakeNetworkService('127.0.0.1')
        tm_env = make_env(root, netsvc)
        before = host_state(tm_env, ipsets)

        dns.table = dns_at_start
        manifest = manifest_for('proid.web#0000000001', '00000000AAAA1')
        container_dir = os.path.join(
            tm_env.apps_dir, appcfg.manifest_unique_name(manifest))
        try:
            _dir, sockets = start(tm_env, manifest)
            for sock in sockets:
                sock.close()
            print('  start: ok')
        except socket.gaierror as err:
            print('  start: failed (%s), container is aborted' % err)
        started = host_state(tm_env, ipsets)
        print('  after start : %d rules, %d endpoint specs, ipsets=%s' % (
            len(started['rules']), len(started['endpoints']),
            started['ipsets']))

        dns.table = dns_at_finish
        for attempt in (1, 2, 3):
            try:
                app_finish.finish(tm_env, container_dir)
                print('  finish #%d: completed' % attempt)
            except socket.gaierror as err:
                print('  finish #%d: failed (%s)' % (attempt, err))

        after = host_state(tm_env, ipsets)
        print('  after finish:', after)
        if after != before:
            print('  VIOLATION: registrations left on the host')
            return 1
        print('  ok')
        return 0
    finally:
        for p in patches:
            p.stop()
        shutil.rmtree(root, ignore_errors=True)


def main():
    bad = 0
    bad += case('case 1: passthrough host re-resolves differently',
                {'pt.example.com': '10.10.10.1'},
                {'pt.example.com': '10.10.10.9'})
    bad += case('case 2: passthrough host does not resolve',
                {}, {})
    return 1 if bad else 0


if __name__ == '__main__':
    sys.exit(main())
