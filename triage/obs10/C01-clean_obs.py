"""C01 observation on the UNCHANGED tree: a top-level bucket taken out of the
cell and inserted again leaves its servers with the instances they held.

History (real Master / Loader / scheduler code, in-memory storage backend):

  1. two racks in the cell, one server each, one instance -> placed on n1.
  2. masterapi.cell_remove_bucket('rack:r1') equivalent: /cell/rack:r1 deleted,
     'cell' event processed (Loader.load_cell), next cycle: the instance is
     un-placed by Cell._fix_invalid_placements (app.server = None only, the
     detached Server object keeps it in .apps and keeps its capacity reduced)
     and placed on n2.
  3. masterapi.cell_insert_bucket('rack:r1') equivalent, 'cell' event, next
     cycle: n1 is a member of the cell again, still holding the instance.

exit 0: property holds, exit 1: violated (expected on the clean tree).
"""

import os
import sys

sys.path.insert(0, os.environ['TM_LIB'])

import collections  # noqa: E402
import time  # noqa: E402

import numpy as np  # noqa: E402

from treadmill import scheduler  # noqa: E402
from treadmill import zknamespace as z  # noqa: E402
from treadmill.scheduler import backend as be  # noqa: E402
from treadmill.scheduler import loader  # noqa: E402
from treadmill.scheduler import master  # noqa: E402


class MemBackend(be.Backend):
    """In-memory stand-in for ZooKeeper (the external world)."""

    Meta = collections.namedtuple('Meta', 'ctime')

    def __init__(self):
        super(MemBackend, self).__init__()
        self.nodes = {'/': (None, time.time() * 1000)}

    def _mk(self, path):
        parts = [p for p in path.split('/') if p]
        cur = ''
        for part in parts:
            cur = cur + '/' + part
            if cur not in self.nodes:
                self.nodes[cur] = (None, time.time() * 1000)

    def list(self, path):
        path = path.rstrip('/') or '/'
        if path not in self.nodes:
            raise be.ObjectNotFoundError()
        prefix = path.rstrip('/') + '/'
        return sorted(
            p[len(prefix):] for p in self.nodes
            if p.startswith(prefix) and '/' not in p[len(prefix):] and
            p != path
        )

    def get(self, path):
        return self.get_with_metadata(path)[0]

    def get_with_metadata(self, path):
        path = path.rstrip('/') or '/'
        if path not in self.nodes:
            raise be.ObjectNotFoundError()
        data, ctime = self.nodes[path]
        return data, self.Meta(ctime)

    def put(self, path, value):
        path = path.rstrip('/') or '/'
        self._mk(path)
        self.nodes[path] = (value, self.nodes[path][1])

    def exists(self, path):
        return (path.rstrip('/') or '/') in self.nodes

    def ensure_exists(self, path):
        self._mk(path.rstrip('/') or '/')

    def delete(self, path):
        path = path.rstrip('/')
        for node in [p for p in self.nodes
                     if p == path or p.startswith(path + '/')]:
            del self.nodes[node]

    def update(self, path, data, check_content=False):
        self.put(path, data)

    def event_object(self):
        raise NotImplementedError()


def check(tag, backend, mst):
    """Check C01 on the model and on the stored records."""
    ok = True
    members = mst.cell.members()

    holders = collections.defaultdict(list)
    for name, server in sorted(members.items()):
        for appname in server.apps:
            holders[appname].append(name)

    for name, server in sorted(members.items()):
        declared = np.array(
            loader.resources(backend.get(z.path.server(name))), dtype=float
        )
        total = np.zeros(3)
        for app in server.apps.values():
            total += app.demand
        print('%s: %s capacity=%s free=%s apps=%s sum=%s' % (
            tag, name, server.init_capacity, server.free_capacity,
            sorted(server.apps), total))
        if np.any(total > declared):
            print('  VIOLATION: summed demand %s exceeds capacity %s' % (
                total, declared))
            ok = False
        if not np.array_equal(server.free_capacity, declared - total):
            print('  VIOLATION: free %s != capacity - sum %s' % (
                server.free_capacity, declared - total))
            ok = False

    for appname, app in sorted(mst.cell.apps.items()):
        on = holders.get(appname, [])
        records = [
            name for name in backend.list(z.PLACEMENT)
            if appname in backend.list(z.path.placement(name))
        ]
        print('%s: %s app.server=%r in apps of %r, placement records %r' % (
            tag, appname, app.server, on, records))
        if len(on) > 1:
            print('  VIOLATION: instance is in the apps of %d servers' % len(on))
            ok = False
        if on != ([app.server] if app.server else []):
            print('  VIOLATION: app.server view and server.apps view differ')
            ok = False
        if len(records) > 1:
            print('  VIOLATION: instance recorded under %d servers' %
                  len(records))
            ok = False
        if records != on:
            print('  VIOLATION: placement records differ from the model')
            ok = False
    return ok


def main():
    scheduler.DIMENSION_COUNT = 3

    backend = MemBackend()
    mst = master.Master(backend, 'demo-cell')
    mst.create_rootns()

    for rack, node in (('rack:r1', 'n1'), ('rack:r2', 'n2')):
        backend.put(z.path.bucket(rack), {'traits': 0})
        backend.ensure_exists(z.path.cell(rack))
        backend.put(z.path.server(node), {
            'parent': rack,
            'memory': '8G',
            'cpu': '400%',
            'disk': '20G',
            'up_since': int(time.time()),
        })
        backend.put(z.path.server_presence(node), {})

    backend.put(z.path.scheduled('proid.web#0000000001'), {
        'affinity': 'proid.web',
        'memory': '6G',
        'cpu': '300%',
        'disk': '10G',
    })

    mst.load_model()
    mst.init_schedule()
    ok = check('cycle 1', backend, mst)
    first = mst.cell.apps['proid.web#0000000001'].server
    rack = 'rack:r1' if first == 'n1' else 'rack:r2'

    # Take the rack of the hosting server out of the cell.
    backend.delete(z.path.cell(rack))
    backend.put(z.path.event('000-cell-0000000001'), None)
    mst.process_events(backend.list(z.EVENTS))
    mst.reschedule()
    ok = check('cycle 2 (%s out)' % rack, backend, mst) and ok

    # Insert it again.
    backend.ensure_exists(z.path.cell(rack))
    backend.put(z.path.event('000-cell-0000000002'), None)
    mst.process_events(backend.list(z.EVENTS))
    mst.reschedule()
    ok = check('cycle 3 (%s back)' % rack, backend, mst) and ok

    print('C01 %s' % ('holds' if ok else 'VIOLATED'))
    return 0 if ok else 1


if __name__ == '__main__':
    sys.exit(main())
