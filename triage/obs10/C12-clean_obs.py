"""C12 observation on the UNCHANGED tree: placement renewed in place.

scheduler/master.py reschedule() keeps records with before == after and
exp_before != exp_after, and stores the new placement data with
backend.put() -> zkutils.put(), which on an existing znode is a set(): the
placement node keeps its ctime, only mtime moves.  Nothing in the children
list of /placement/<host> changes, so the running agent does not look at the
instance again; and at the next agent start EventMgr._cache(check_existing=
True) compares the cache file's ctime with the placement node's *ctime*, so
the file is declared up to date.  The cache file keeps the old expiry.

Exit 1 when the cache file differs from /scheduled + placement data after the
agent's start-up synchronisation (seen on the clean tree), 0 otherwise.
"""

import os
import sys

sys.path.insert(0, os.environ['TM_LIB'])

import collections
import io
import json
import shutil
import tempfile
import threading
import time

from unittest import mock

import kazoo.exceptions

from treadmill import context
from treadmill import eventmgr
from treadmill import yamlwrapper as yaml
from treadmill import zkutils

HOST = 'node1.example.com'
Stat = collections.namedtuple('Stat', 'ctime mtime')


class FakeZk:
    """Tiny in-memory ZooKeeper: path -> [bytes, ctime_ms, mtime_ms]."""

    def __init__(self):
        self.nodes = {}
        self.clock = time.time()
        self.handler = mock.Mock()
        self.handler.event_object.side_effect = threading.Event

    def _now(self):
        return int(self.clock * 1000)

    def make_default_acl(self, acl):
        return acl

    def set_acls(self, path, acl):
        pass

    def add_listener(self, _listener):
        pass

    def create(self, path, value, **_kwargs):
        if path in self.nodes:
            raise kazoo.exceptions.NodeExistsError(path)
        self.nodes[path] = [value, self._now(), self._now()]
        return path

    def set(self, path, value):
        if path not in self.nodes:
            raise kazoo.exceptions.NoNodeError(path)
        self.nodes[path][0] = value
        self.nodes[path][2] = self._now()

    def exists(self, path):
        if path in self.nodes:
            return Stat(*self.nodes[path][1:])
        return None

    def get(self, path, watch=None):
        del watch
        if path not in self.nodes:
            raise kazoo.exceptions.NoNodeError(path)
        data, ctime, mtime = self.nodes[path]
        return data, Stat(ctime, mtime)

    def get_children(self, path, watch=None):
        del watch
        prefix = path.rstrip('/') + '/'
        return sorted(
            p[len(prefix):] for p in self.nodes
            if p.startswith(prefix) and '/' not in p[len(prefix):]
        )

    def DataWatch(self, path):  # pylint: disable=invalid-name
        def _decorator(func):
            if path in self.nodes:
                data, ctime, mtime = self.nodes[path]
                func(data, Stat(ctime, mtime), None)
            else:
                func(None, None, None)
            return func
        return _decorator

    def ChildrenWatch(self, path, func):  # pylint: disable=invalid-name
        func(self.get_children(path))


def run_agent_once(root, zk):
    with mock.patch('treadmill.appenv.AppEnvironment', mock.Mock()), \
            mock.patch('treadmill.sysinfo.hostname',
                       mock.Mock(return_value=HOST)), \
            mock.patch('time.sleep', mock.Mock()), \
            mock.patch('treadmill.context.GLOBAL.zk', mock.Mock()):
        context.GLOBAL.zk.conn = zk
        mgr = eventmgr.EventMgr(root=root)
        mgr.tm_env.root = root
        mgr.tm_env.cache_dir = os.path.join(root, 'cache')
        mgr.run(once=True)


def main():
    root = tempfile.mkdtemp(prefix='c12o-')
    try:
        os.mkdir(os.path.join(root, 'cache'))
        zk = FakeZk()
        inst = 'proid.web#0000000007'
        pnode = '/placement/%s/%s' % (HOST, inst)

        zk.clock = time.time() - 600
        zkutils.put(zk, '/server.presence/' + HOST, {'valid_until': 1.0})
        zkutils.put(zk, '/placement/' + HOST, {'state': 'up'})
        zkutils.put(zk, '/scheduled/' + inst, {'memory': '1G', 'cpu': '10%'})
        # master: first placement (znode created)
        zkutils.put(zk, pnode, {'identity': 1, 'identity_count': 3,
                                'expires': 1000.0})

        run_agent_once(root, zk)

        # master: same server, placement expiry renewed -> put() on the
        # existing znode (set: ctime kept, mtime moves).  Well after the
        # cache file was written.
        zk.clock = time.time() + 300
        zkutils.put(zk, pnode, {'identity': 1, 'identity_count': 3,
                                'expires': 2000.0})
        print('placement znode ctime/mtime (ms):', zk.nodes[pnode][1:])

        # agent restarts: start-up synchronisation checks existing entries.
        run_agent_once(root, zk)

        want = json.loads(zk.nodes['/scheduled/' + inst][0].decode())
        want['task'] = inst[inst.index('#') + 1:]
        want.update(json.loads(zk.nodes[pnode][0].decode()))
        with io.open(os.path.join(root, 'cache', inst)) as f:
            got = yaml.load(stream=f)

        print('zookeeper :', want)
        print('cache     :', got)
        if got == want:
            print('RESULT: cache mirrors the placement')
            return 0
        print('RESULT: cache file keeps the superseded placement data '
              '(expires=%r, placement says %r)' % (
                  got.get('expires'), want.get('expires')))
        return 1
    finally:
        shutil.rmtree(root, ignore_errors=True)


if __name__ == '__main__':
    sys.exit(main())
