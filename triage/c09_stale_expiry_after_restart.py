import os, sys; sys.path.insert(0, os.path.dirname(os.path.abspath(__file__))); sys.path.insert(0,'/repo/lib/python')
import mock, time
from membe import Mem
from treadmill import scheduler
from treadmill.scheduler import master
from treadmill import zknamespace as z
scheduler.DIMENSION_COUNT=3
b=Mem()
now=[100000.0]
with mock.patch('time.time', lambda: now[0]):
    b.clock=now
    b.put('/buckets/pod:1', {'parent': None, 'traits':0}); b.put('/buckets/rack:1', {'parent':'pod:1','traits':0})
    b.put('/cell/pod:1', {})
    b.put('/servers/s1', {'parent':'rack:1','memory':'16G','disk':'128G','cpu':'400%','up_since':now[0]})
    b.put('/server.presence/s1', {'valid_until': now[0]+30*86400})
    b.put('/scheduled/p.a#0000000001', {'memory':'1G','disk':'1G','cpu':'10%','affinity':'p.a','lease':'1h'})
    m=master.Master(b,'cell'); m.create_rootns(); m.load_model(); m.init_schedule()
    print('first:', b.d.get('/placement/s1/p.a#0000000001'), m.cell.apps['p.a#0000000001'].placement_expiry)
    # server restarts: presence node re-created later than placement
    now[0]+=600
    b.delete('/server.presence/s1'); b.put('/server.presence/s1', {'valid_until': now[0]+30*86400})
    now[0]+=60
    m2=master.Master(b,'cell'); m2.load_model(); m2.init_schedule()
    print('second:', b.d.get('/placement/s1/p.a#0000000001'), m2.cell.apps['p.a#0000000001'].server, m2.cell.apps['p.a#0000000001'].placement_expiry)
