"""Triage replay (not a check): an instance is marked for unscheduling on frozen server X; before the next cycle X's rack is taken out
of the cell topology (Cell.remove_node - servers are not emptied).  _fix_invalid_placements un-places the instance (app.server = None)
but leaves the unschedule mark set; the instance moves to Y with the stale mark.  When Y is later frozen with nothing marked, the
instance is thrown off Y - C08: a frozen server keeps its instances except those explicitly marked."""
import sys, os
sys.path.insert(0, os.environ.get('TM_LIB', '/repo/lib/python'))
import numpy as np
from treadmill import scheduler
from treadmill.scheduler import State
scheduler.DIMENSION_COUNT = 3
cell = scheduler.Cell('top')
cell.partitions['_default'] = scheduler.Partition(label='_default')
racks = {}
for r in ('rx', 'ry'):
    racks[r] = scheduler.Bucket(r, traits=0, level='rack'); cell.add_node(racks[r])
def server(name, rack):
    s = scheduler.Server(name, np.array([10, 10, 10]), valid_until=10**10, label='_default')
    racks[rack].add_node(s); cell.partitions['_default'].add(s); return s
X = server('X', 'rx')
alloc = cell.partitions['_default'].allocation
a = scheduler.Application('a', 10, np.array([1, 1, 1]), 'a'); b = scheduler.Application('b', 10, np.array([1, 1, 1]), 'b')
cell.add_app(alloc, a)
cell.schedule(); assert a.server == 'X'
# operator freezes X asking for a to be moved (what Master._freeze_server does)
X.state = State.frozen; a.unschedule = True
# ... but before the next cycle the rack of X leaves the cell; Y joins
cell.remove_node(racks['rx'])
Y = server('Y', 'ry')
cell.add_app(alloc, b)
cell.schedule()
print('after topology change: a on', a.server, 'unschedule =', a.unschedule, '; b on', b.server)
assert a.server == 'Y' and b.server == 'Y'
# later Y is frozen, nothing marked
Y.state = State.frozen
cell.schedule()
print('after freezing Y with no marks: a on', a.server, '; b on', b.server)
ok = a.server == 'Y' and b.server == 'Y'
print('OK' if ok else 'VIOLATION: an instance that was not marked was moved off a frozen server')
sys.exit(0 if ok else 1)
