"""C06 - observations on the UNCHANGED tree.

obs 1: a priority-0 instance whose cumulative demand stays within the
       reservation of its allocation does not get the boosted rank.
obs 2: Allocation.utilization_queue() raises TypeError (Application objects
       are compared by heapq.merge) when the heads of two sub-queues tie on
       (rank, util_before, util_after, pending, global_order); the cycle
       considers no instance at all.  Needs two instances created within the
       resolution of the global order stamp (clock mocked here).

exit 1 when any of the two shows, 0 otherwise.
"""

from __future__ import print_function

import os
import sys

sys.path.insert(0, os.environ['TM_LIB'])

# pylint: disable=wrong-import-position
import mock  # noqa: E402

from treadmill import scheduler  # noqa: E402

scheduler.DIMENSION_COUNT = 3


def obs_p0_not_boosted():
    """Priority 0 instance inside the reservation keeps the plain rank."""
    alloc = scheduler.Allocation()
    alloc.update([10, 10, 10], 100, 10)
    alloc.add(scheduler.Application('a.web#1', 5, [1, 1, 1], 'a'))
    alloc.add(scheduler.Application('a.low#2', 0, [1, 1, 1], 'a'))
    queue = list(alloc.utilization_queue([100., 100., 100.]))
    ranks = {item[-1].name: item[0] for item in queue}
    print('obs 1: ranks', ranks)
    # cumulative demand 2 <= reservation 10 for both.
    return ranks['a.low#2'] != 90


def obs_tie_crash():
    """Full tie between heads of two sub-queues."""
    root = scheduler.Allocation()
    left = scheduler.Allocation([5, 5, 5])
    right = scheduler.Allocation([5, 5, 5])
    root.add_sub_alloc('left', left)
    root.add_sub_alloc('right', right)
    with mock.patch('time.time', mock.Mock(return_value=1700000000.0)):
        left.add(scheduler.Application('l.app#1', 1, [1, 1, 1], 'l'))
        right.add(scheduler.Application('r.app#2', 1, [1, 1, 1], 'r'))
    try:
        queue = list(root.utilization_queue([100., 100., 100.]))
        print('obs 2: queue', [item[-1].name for item in queue])
        return False
    except TypeError as err:
        print('obs 2: utilization_queue raised TypeError: %s' % err)
        return True


def main():
    """Run."""
    seen = [obs_p0_not_boosted(), obs_tie_crash()]
    if any(seen):
        print('clean tree observation(s) reproduced: %r' % seen)
        return 1
    return 0


if __name__ == '__main__':
    sys.exit(main())
