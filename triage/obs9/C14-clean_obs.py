"""C14: observations on the UNCHANGED tree (not used as variants).

Run as:  TM_LIB=<tree>/lib/python /venv/bin/python clean_obs.py
Exits 1 when at least one of the observations below shows, 0 otherwise.

OBS-1  EndpointsMgr.create_spec(owner=None) on a spec whose (symlink) owner
       is gone writes *through* the dangling symlink: it creates a stray file
       at the dead owner's path.  The dead owner "exists" again, so
       endpoints.garbage_collect never reclaims the spec, and the ownerless
       request was reported as successful although the entry is still the
       dead owner's.

OBS-2  RuleMgr.garbage_collect decides with os.stat() and acts with
       os.unlink() on the *name*; nothing ties the two together.  With two
       collectors (e.g. a firewall watcher being restarted while the old one
       is still in its GC pass) and one live owner re-creating the rule in
       between, the first collector removes the rule of the live owner.
       The interleaving point is injected by wrapping os.stat.
"""

import errno
import os
import shutil
import sys
import tempfile

import mock

sys.path.insert(0, os.environ['TM_LIB'])

from treadmill import endpoints  # noqa: E402  pylint: disable=C0413
from treadmill import firewall  # noqa: E402  pylint: disable=C0413
from treadmill import rulefile  # noqa: E402  pylint: disable=C0413


def obs_1(root):
    """Ownerless create_spec through a dangling owner link."""
    apps_dir = os.path.join(root, 'apps')
    endpoints_dir = os.path.join(root, 'endpoints')
    os.makedirs(apps_dir)
    owner_a = os.path.join(apps_dir, 'proid.web-0000000001-000000000Aa1x')
    os.mkdir(owner_a)
    mgr = endpoints.EndpointsMgr(endpoints_dir)
    spec = dict(appname='proid.web#0000000001', proto='tcp', endpoint='http',
                real_port=45001, pid=4242, port=8080)
    mgr.create_spec(owner=owner_a, **spec)
    # Owner A disappears.
    os.rmdir(owner_a)
    # Somebody registers the same spec without owner (the "regular file"
    # flavour of create_spec) before the collector ran.
    mgr.create_spec(owner=None, **spec)
    endpoints.garbage_collect(endpoints_dir)
    left = os.listdir(endpoints_dir)
    if left:
        link = os.path.join(endpoints_dir, left[0])
        print('OBS-1 shows: owner %r is gone but its spec survives '
              'garbage_collect: %r -> %r (islink=%s); a stray file was '
              'created at the dead owner path: isfile=%s' %
              (os.path.basename(owner_a), left[0], os.readlink(link),
               os.path.islink(link), os.path.isfile(owner_a)))
        return True
    return False


def obs_2(root):
    """stat/unlink race of garbage_collect with a second collector."""
    apps_dir = os.path.join(root, 'apps2')
    rules_dir = os.path.join(root, 'rules')
    os.makedirs(apps_dir)
    os.makedirs(rules_dir)
    mgr = rulefile.RuleMgr(rules_dir, apps_dir)
    other_collector = rulefile.RuleMgr(rules_dir, apps_dir)

    rule = firewall.DNATRule(proto='tcp', dst_ip='10.1.1.1', dst_port=45002,
                             new_ip='192.168.0.7', new_port=8080)
    os.mkdir(os.path.join(apps_dir, 'owner-A'))
    os.mkdir(os.path.join(apps_dir, 'owner-B'))
    mgr.create_rule('TM_PREROUTING_DNAT', rule, 'owner-A')
    os.rmdir(os.path.join(apps_dir, 'owner-A'))  # A disappears

    real_stat = os.stat
    state = {'done': False}

    def stat_then_interleave(path, *args, **kwargs):
        try:
            return real_stat(path, *args, **kwargs)
        except OSError as err:
            if (err.errno == errno.ENOENT and not state['done'] and
                    os.path.dirname(str(path)) == mgr.path):
                state['done'] = True
                # ... first collector is descheduled here ...
                other_collector.garbage_collect()      # reclaims A's rule
                mgr.create_rule('TM_PREROUTING_DNAT', rule, 'owner-B')
            raise

    with mock.patch('os.stat', side_effect=stat_then_interleave):
        mgr.garbage_collect()

    if not os.listdir(rules_dir):
        print('OBS-2 shows: the rule re-created by live owner-B between the '
              'stat() and the unlink() of a collector was reclaimed; '
              'rules/ = []')
        return True
    return False


def main():
    """Run all observations."""
    root = tempfile.mkdtemp(prefix='c14obs-')
    try:
        shown = [obs_1(root), obs_2(root)]
    finally:
        shutil.rmtree(root, ignore_errors=True)
    return 1 if any(shown) else 0


if __name__ == '__main__':
    sys.exit(main())
