"""Clean-tree observation for C04 (run on the UNCHANGED tree).

  TM_LIB=<tree>/lib/python /venv/bin/python clean_obs.py    -> exit 1 when the
  violation shows.

History (real Loader over the in-memory backend of demo_b):
  1. racks r1 (r1-s1) and r2 (r2-s1) are both in /cell; proid.web#1 declares
     limits {server: 1, cell: 1}; first cycle places it.
  2. the operator takes the rack that holds it out of the cell
     (masterapi.cell_remove_bucket -> 'cell' event -> Loader.load_cell());
     the next cycle finds app.server not in cell.members(), and
     Cell._fix_invalid_placements sets app.server = None WITHOUT Server.remove:
     the instance stays in server.apps / in the counters of the detached rack,
     and is placed again in the other rack.
  3. the operator puts the rack back (cell_insert_bucket -> load_cell());
     Node.add_node adds the stale counters of the rack to the cell, nothing
     checks limits there.  After the next cycle the cell holds two entries of
     the affinity with a declared cell limit of 1 (the same instance sits in
     the apps of two servers).
"""

from __future__ import print_function

import os
import sys
import time

sys.path.insert(0, os.path.dirname(os.path.abspath(__file__)))

import demo_b  # noqa: E402  (inserts TM_LIB, provides MemBackend / check)

from treadmill.scheduler import loader  # noqa: E402


def main():
    """Run the history."""
    zk = demo_b.MemBackend()
    now = int(time.time())
    for path in ('/traits', '/partitions', '/buckets', '/cell', '/servers',
                 '/server.presence', '/placement', '/scheduled',
                 '/identity-groups', '/blackedout.servers'):
        zk.put(path, None)
    zk.put('/traits', [])
    for rack, server in (('rack:r1', 'r1-s1'), ('rack:r2', 'r2-s1')):
        zk.put('/buckets/' + rack, {'parent': None, 'traits': 0})
        zk.put('/cell/' + rack, None)
        zk.put('/servers/' + server, {
            'parent': rack, 'memory': '16G', 'cpu': '400%', 'disk': '100G',
            'up_since': now - 3600,
        })
        zk.put('/server.presence/' + server, {})
        zk.put('/placement/' + server, {'state': 'up', 'since': now - 60})

    name = 'proid.web#0000000001'
    zk.put('/scheduled/' + name, {
        'memory': '1G', 'cpu': '10%', 'disk': '1G',
        'affinity': 'proid.web',
        'affinity_limits': {'server': 1, 'cell': 1},
    })

    ldr = loader.Loader(zk, 'demo')
    ldr.load_model()
    cell = ldr.cell
    cell.schedule()
    demo_b.check(cell, 'after the first cycle')

    first = cell.apps[name].server
    rack = ldr.servers[first].parent.name

    # 2. the rack leaves the cell.
    zk.delete('/cell/' + rack)
    ldr.load_cell()
    cell.schedule()
    demo_b.check(cell, 'after the cycle that follows %s leaving' % rack)

    # 3. the rack is back.
    zk.put('/cell/' + rack, None)
    ldr.load_cell()
    cell.schedule()
    demo_b.check(cell, 'after the cycle that follows %s coming back' % rack)
    print('C04 holds')
    return 0


if __name__ == '__main__':
    sys.exit(main())
