"""C17: clean-tree observation (identity node handed over between two
instances on the same node).

The identity node /identity-groups/<group>/<n> is keyed by group and identity,
not by instance, but PresenceResourceService.presence is keyed by instance
(app_name) first.  When identity <n> moves from instance #1 to instance #2 and
both containers are on the SAME node (same service, same session), the second
on_create_request takes the node over (_safe_create: owner is our session,
content differs => zkutils.update) and records it under presence['...#2'],
while the stale record under presence['...#1'] stays.  The clean-up of the old
container (on_delete_request for instance #1) then finds the path in
presence['...#1'] with its own request id, _safe_delete sees "our session" and
deletes the identity node which is by now registered for the newer container.

Steps (real service code, in-memory ZooKeeper fake):
  hostA create proid.app-0000000001-...U1  identity_group=grp identity=0
  hostA create proid.app-0000000002-...U2  identity_group=grp identity=0
  hostA delete proid.app-0000000001-...U1
Expected by the property: "removing a container's presence deletes only the
nodes registered for that container": /identity-groups/grp/0 (content
{'app': 'proid.app#0000000002', ...}) must survive.  Observed: it is deleted.

Exit 1 when the violation shows.
Run: TM_LIB=<tree>/lib/python /venv/bin/python clean_obs.py
"""

from __future__ import print_function

import collections
import os
import sys

sys.path.insert(0, os.environ['TM_LIB'])

import kazoo  # noqa: E402
import kazoo.client  # noqa: E402

from treadmill.services import presence_service  # noqa: E402


###############################################################################
# In memory ZooKeeper.
###############################################################################
class Stat(object):
    """Subset of kazoo's ZnodeStat."""

    def __init__(self, owner, version):
        self.ephemeralOwner = owner or 0
        self.version = version
        self.ctime = 0
        self.children_count = 0

    @property
    def owner_session_id(self):
        return self.ephemeralOwner or None


Event = collections.namedtuple('Event', 'type path')


class FakeZk(object):
    """The ensemble: node table, sessions, data watches."""

    def __init__(self):
        self.nodes = {'/': [b'', None, 0]}
        self.next_sid = 1000
        self.watches = collections.defaultdict(list)
        self.pending = collections.deque()
        self.foreign = []

    def client(self, name, service=True):
        return FakeClient(self, name, service)

    def new_sid(self):
        self.next_sid += 1
        return self.next_sid

    def owner(self, path):
        node = self.nodes.get(path)
        return node[1] if node else None

    def expire(self, client):
        """Expire the session of a client, the client reconnects."""
        sid = client.sid
        for path in sorted(self.nodes):
            if self.nodes[path][1] == sid:
                del self.nodes[path]
                self.notify('DELETED', path)
        client.sid = self.new_sid()

    def notify(self, etype, path):
        for watch in list(self.watches[path]):
            self.pending.append((watch, Event(etype, path)))

    def drain(self):
        """Deliver queued watch events."""
        while self.pending:
            watch, event = self.pending.popleft()
            if watch not in self.watches[event.path]:
                continue
            node = self.nodes.get(event.path)
            if node is None:
                keep = watch(None, None, event)
            else:
                keep = watch(node[0], Stat(node[1], node[2]), event)
            if keep is False:
                self.watches[event.path].remove(watch)


class FakeClient(object):
    """Subset of KazooClient."""

    def __init__(self, zk, name, service):
        self.zk = zk
        self.name = name
        self.service = service
        self.sid = zk.new_sid()

    @property
    def client_id(self):
        return (self.sid, b'pwd')

    # acl helpers of treadmill's ZkClient
    def make_servers_acl(self):
        return 'servers-acl'

    def make_default_acl(self, acl):
        return acl

    def make_host_acl(self, host, perm):
        return 'host-acl'

    def set_acls(self, path, acl):
        pass

    def _touch(self, what, path):
        owner = self.zk.owner(path)
        if self.service and owner is not None and owner != self.sid:
            self.zk.foreign.append(
                '%s(%s) by %s[session %s] on node owned by session %s' %
                (what, path, self.name, self.sid, owner)
            )

    def create(self, path, value=b'', acl=None, ephemeral=False,
               sequence=False, makepath=False):
        assert not sequence
        if path in self.zk.nodes:
            raise kazoo.client.NodeExistsError()
        parent = path.rsplit('/', 1)[0] or '/'
        if parent not in self.zk.nodes:
            if not makepath:
                raise kazoo.client.NoNodeError()
            self.create(parent, b'', makepath=True)
        self.zk.nodes[path] = [value, self.sid if ephemeral else None, 0]
        self.zk.notify('CREATED', path)
        return path

    def get(self, path, watch=None):
        if path not in self.zk.nodes:
            raise kazoo.client.NoNodeError()
        data, owner, version = self.zk.nodes[path]
        return data, Stat(owner, version)

    def exists(self, path, watch=None):
        if path not in self.zk.nodes:
            return None
        _data, owner, version = self.zk.nodes[path]
        return Stat(owner, version)

    def get_children(self, path, watch=None):
        if path not in self.zk.nodes:
            raise kazoo.client.NoNodeError()
        prefix = path.rstrip('/') + '/'
        return sorted(
            node[len(prefix):] for node in self.zk.nodes
            if node.startswith(prefix) and '/' not in node[len(prefix):]
        )

    def set(self, path, value, version=-1):
        if path not in self.zk.nodes:
            raise kazoo.client.NoNodeError()
        self._touch('set', path)
        node = self.zk.nodes[path]
        node[0] = value
        node[2] += 1
        self.zk.notify('CHANGED', path)

    def delete(self, path, version=-1, recursive=False):
        if path not in self.zk.nodes:
            raise kazoo.client.NoNodeError()
        self._touch('delete', path)
        del self.zk.nodes[path]
        self.zk.notify('DELETED', path)

    def DataWatch(self, path):  # pylint: disable=invalid-name
        def _decorator(func):
            node = self.zk.nodes.get(path)
            if node is None:
                keep = func(None, None, None)
            else:
                keep = func(node[0], Stat(node[1], node[2]), None)
            if keep is not False:
                self.zk.watches[path].append(func)
            return func
        return _decorator


###############################################################################
# One treadmill node: the real presence service + the request bookkeeping the
# resource service framework does around it (requests, replies, retries).
###############################################################################
class Service(presence_service.PresenceResourceService):
    """Real service, wired to a fake connection instead of context.GLOBAL."""

    __slots__ = ('_zk', 'retries')

    zkclient = property(lambda self: self._zk)

    def retry_request(self, rsrc_id):
        self.retries.append(rsrc_id)


class Violation(Exception):
    pass


class Node(object):

    def __init__(self, zk, hostname):
        self.zk = zk
        self.hostname = hostname
        self.conn = zk.client(hostname)
        self.svc = Service()
        self.svc._zk = self.conn
        self.svc.retries = []
        self.svc.hostname = hostname
        self.requests = {}
        self.replies = {}

    def expected(self, rsrc_id):
        data = self.requests[rsrc_id]
        app = rsrc_id.rsplit('-', 1)[0]
        app = '#'.join(app.rsplit('-', 1))
        proid, rest = app.split('.', 1)
        paths = ['/running/' + app]
        for endpoint in data.get('endpoints', []):
            paths.append('/endpoints/%s/%s:%s:%s' % (
                proid, rest, endpoint.get('proto', 'tcp'), endpoint['name']
            ))
        if data.get('identity_group'):
            paths.append('/identity-groups/%s/%s' % (
                data['identity_group'], data['identity']
            ))
        return paths

    def evaluate(self, rsrc_id, why):
        """(Re-)evaluate a request, as ResourceService._on_created does."""
        res = self.svc.on_create_request(rsrc_id, self.requests[rsrc_id])
        self.replies[rsrc_id] = res
        print('  %-6s %-8s %-28s -> %s' % (
            self.hostname, why, rsrc_id,
            'registered' if res is not None else 'waiting'
        ))
        check_foreign(self.zk)
        if res is not None:
            sid = self.conn.client_id[0]
            for path in self.expected(rsrc_id):
                owner = self.zk.owner(path)
                if path not in self.zk.nodes or owner != sid:
                    raise Violation(
                        '%s answered request %s as registered, but %s is %s '
                        '(service session is %s): the node is not an '
                        'ephemeral node of its own session and it did not '
                        'wait for it to go away' % (
                            self.hostname, rsrc_id, path,
                            'owned by session %s' % owner
                            if path in self.zk.nodes else 'missing', sid
                        )
                    )
        return res

    def create(self, rsrc_id, data):
        self.requests[rsrc_id] = data
        return self.evaluate(rsrc_id, 'create')

    def update(self, rsrc_id):
        """Client put on an existing request (clt_update_request)."""
        return self.evaluate(rsrc_id, 'update')

    def delete(self, rsrc_id):
        del self.requests[rsrc_id]
        self.replies.pop(rsrc_id, None)
        self.svc.on_delete_request(rsrc_id)
        print('  %-6s %-8s %s' % (self.hostname, 'delete', rsrc_id))
        check_foreign(self.zk)

    def run_retries(self):
        done = False
        while self.svc.retries:
            rsrc_id = self.svc.retries.pop(0)
            if rsrc_id in self.requests:
                self.evaluate(rsrc_id, 'retry')
                done = True
        return done


def check_foreign(zk):
    if zk.foreign:
        raise Violation('node of another session touched: ' + zk.foreign[0])


def pump(zk, nodes):
    """Deliver watch events and run the retries they trigger, in order."""
    busy = True
    while busy:
        zk.drain()
        busy = False
        for node in nodes:
            busy = node.run_retries() or busy


def dump(zk):
    for path in sorted(zk.nodes):
        data, owner, _version = zk.nodes[path]
        if owner:
            print('      %-45s %-14r session %s' % (path, data, owner))


def main():
    zk = FakeZk()
    node_a = Node(zk, 'hostA')
    req = {'endpoints': [], 'identity_group': 'grp', 'identity': 0}

    node_a.create('proid.app-0000000001-000000000U1a1', dict(req))
    dump(zk)
    # Instance #1 is stopped, the scheduler hands identity 0 to instance #2
    # which is placed on the same node; its container starts before the old
    # one is cleaned up.
    node_a.create('proid.app-0000000002-000000000U2a1', dict(req))
    dump(zk)
    print('  presence = %r' % dict(node_a.svc.presence))
    node_a.delete('proid.app-0000000001-000000000U1a1')
    dump(zk)

    rsrc_id = 'proid.app-0000000002-000000000U2a1'
    missing = [
        path for path in node_a.expected(rsrc_id) if path not in zk.nodes
    ]
    if missing:
        print('C17 VIOLATED on the unchanged tree: clean-up of container '
              'proid.app-0000000001-000000000U1a1 deleted %s, registered '
              'for the newer container %s' % (missing, rsrc_id))
        return 1
    print('not reproduced')
    return 0


if __name__ == '__main__':
    sys.exit(main())
