"""Clean-tree observations for C09 (no change applied): histories for which the
UNCHANGED tree publishes a placement that differs from the model after a cycle.

Run:  TM_LIB=<clean tree>/lib/python /venv/bin/python clean_obs.py
Exit 1 when at least one of the observations shows, 0 otherwise.
"""
import os, sys, time, copy, threading, collections
sys.path.insert(0, os.environ['TM_LIB'])
from treadmill import scheduler
scheduler.DIMENSION_COUNT = 3
from treadmill import zknamespace as z
from treadmill.scheduler import backend as be
from treadmill.scheduler import master as tm_master
import treadmill.utils

Meta = collections.namedtuple('Meta', 'ctime')


class MemBackend(be.Backend):
    """In-memory stand-in for ZooKeeper (same contract as ZkBackend)."""

    def __init__(self):
        super(MemBackend, self).__init__()
        self.nodes = {'/': [None, time.time() * 1000.0]}
        self.seq = 0

    @staticmethod
    def _norm(path):
        path = '/' + path.strip('/')
        return path

    def _mk(self, path, data=None):
        path = self._norm(path)
        if path in self.nodes:
            return False
        parent = os.path.dirname(path)
        if parent != path:
            self._mk(parent)
        self.nodes[path] = [copy.deepcopy(data), time.time() * 1000.0]
        return True

    def list(self, path):
        path = self._norm(path)
        if path not in self.nodes:
            raise be.ObjectNotFoundError()
        prefix = path.rstrip('/') + '/'
        return sorted(p[len(prefix):] for p in self.nodes
                      if p.startswith(prefix) and p != path
                      and '/' not in p[len(prefix):])

    def get(self, path):
        return self.get_with_metadata(path)[0]

    def get_with_metadata(self, path):
        path = self._norm(path)
        if path not in self.nodes:
            raise be.ObjectNotFoundError()
        data, ctime = self.nodes[path]
        return copy.deepcopy(data), Meta(ctime)

    def put(self, path, value):
        path = self._norm(path)
        if not self._mk(path, value):
            self.nodes[path][0] = copy.deepcopy(value)
        return path

    def create_seq(self, prefix, value):
        self.seq += 1
        path = '%s%010d' % (prefix, self.seq)
        self.put(path, value)
        return os.path.basename(path)

    def exists(self, path):
        return self._norm(path) in self.nodes

    def ensure_exists(self, path):
        self._mk(path)

    def delete(self, path):
        path = self._norm(path)
        for p in [p for p in self.nodes
                  if p == path or p.startswith(path + '/')]:
            del self.nodes[p]

    def update(self, path, data, check_content=False):
        path = self._norm(path)
        if path not in self.nodes:
            raise be.ObjectNotFoundError()
        self.nodes[path][0] = copy.deepcopy(data)

    def event_object(self):
        return threading.Event()


class World:
    """A master on top of MemBackend plus the helpers that play the part of
    the admin API / node agents (ZooKeeper-level events) and the watchers."""

    def __init__(self):
        self.zk = MemBackend()
        self.master = None

    # -- ZooKeeper level events -------------------------------------------
    def bucket(self, name, parent=None, in_cell=False):
        self.zk.put(z.path.bucket(name), {'parent': parent, 'traits': 0})
        if in_cell:
            self.zk.ensure_exists(z.path.cell(name))

    def server(self, name, parent, memory='16G', cpu='400%', disk='100G',
               partition=None, event=True):
        data = {'parent': parent, 'memory': memory, 'cpu': cpu, 'disk': disk,
                'up_since': int(time.time()) - 3600}
        if partition:
            data['partition'] = partition
        self.zk.put(z.path.server(name), data)
        if event:
            self.event('servers', [name])

    def presence(self, name, up=True):
        if up:
            self.zk.put(z.path.server_presence(name), {})
        else:
            self.zk.delete(z.path.server_presence(name))

    def app(self, name, memory='1G', cpu='10%', disk='1G', **kw):
        manifest = {'memory': memory, 'cpu': cpu, 'disk': disk,
                    'affinity': name.split('#')[0]}
        manifest.update(kw)
        self.zk.put(z.path.scheduled(name), manifest)

    def delete_app(self, name):
        self.zk.delete(z.path.scheduled(name))

    def event(self, resource, payload, prio=0):
        return self.zk.create_seq(
            z.path.event('%03d-%s-' % (prio, resource)), payload)

    # -- master ---------------------------------------------------------
    def start_master(self):
        self.master = tm_master.Master(self.zk, 'cell')
        self.master.create_rootns()
        self.master.load_model()
        self.master.init_schedule()
        return self.master

    def deliver(self):
        """What the four children watches would deliver, then one cycle."""
        m = self.master
        m.process_server_presence(self.zk.list(z.SERVER_PRESENCE))
        m.process_scheduled(self.zk.list(z.SCHEDULED))
        m.process_events(self.zk.list(z.EVENTS))
        m.process_blackedout_servers(self.zk.list(z.BLACKEDOUT_SERVERS))
        m.reschedule()

    # -- observable -----------------------------------------------------
    def published(self):
        out = {}
        for srv in self.zk.list(z.PLACEMENT):
            for app in self.zk.list(z.path.placement(srv)):
                out.setdefault(app, []).append(
                    (srv, self.zk.get(z.path.placement(srv, app))))
        return out

    def violations(self):
        problems = []
        pub = self.published()
        cell = self.master.cell
        for name, app in cell.apps.items():
            entries = pub.pop(name, [])
            if not app.server:
                for srv, _data in entries:
                    problems.append('%s is pending in the model but '
                                    'published under %s' % (name, srv))
                continue
            where = [srv for srv, _ in entries]
            if where != [app.server]:
                problems.append('%s is on %s in the model but published '
                                'under %r' % (name, app.server, where))
                continue
            data = entries[0][1] or {}
            if data.get('identity') != app.identity:
                problems.append('%s: identity %r in the model, %r published'
                                % (name, app.identity, data.get('identity')))
            if data.get('expires') != app.placement_expiry:
                problems.append('%s: expiry %r in the model, %r published'
                                % (name, app.placement_expiry,
                                   data.get('expires')))
        for name, entries in pub.items():
            for srv, _data in entries:
                problems.append('%s is not scheduled any more but still '
                                'published under %s' % (name, srv))
        return problems


def admin_delete_server(world, name, with_event=True):
    """masterapi.delete_server, ZooKeeper operation by operation."""
    world.zk.delete(z.path.server(name))
    world.zk.delete(z.path.placement(name))
    world.zk.delete(z.path.version(name))
    world.zk.delete(z.path.version_history(name))
    if with_event:
        world.event('servers', [name])


def report(world, step):
    problems = world.violations()
    print('  %-58s %s' % (step, 'OK' if not problems else 'VIOLATED'))
    for problem in problems:
        print('        ' + problem)
    return problems


def obs_bucket_left_cell_then_server_deleted():
    """O1: decommissioning: bucket taken out of the cell, later its server
    deleted."""
    print('O1: bucket removed from the cell, then its server deleted')
    w = World()
    w.bucket('pod:1', None, in_cell=True)
    w.bucket('pod:2', None, in_cell=True)
    w.bucket('rack:1', 'pod:1')
    w.bucket('rack:2', 'pod:2')
    w.server('s1', 'rack:1', event=False)
    w.presence('s1')
    for name in ('t0', 't1'):
        w.server(name, 'rack:2', event=False)
        w.presence(name)
    master = w.start_master()
    w.app('foo.a#0000000001')
    w.deliver()
    report(w, 'instance scheduled + cycle')
    if master.cell.apps['foo.a#0000000001'].server != 's1':
        print('  (instance did not land on s1, history not exercised)')
        return []
    # masterapi.cell_remove_bucket
    w.zk.delete(z.path.cell('pod:1'))
    w.event('cell', None)
    w.deliver()
    report(w, 'pod:1 removed from the cell (cell event) + cycle')
    print('        model: %r, still in s1.apps: %r' % (
        {n: a.server for n, a in master.cell.apps.items()},
        sorted(master.servers['s1'].apps)))
    admin_delete_server(w, 's1')
    w.deliver()
    problems = report(w, 's1 deleted (servers event) + cycle')
    w.event('apps', ['foo.a#0000000001'])
    w.deliver()
    problems += report(w, 'one more event + cycle')
    return problems


def obs_delete_server_race():
    """O2: a cycle runs between the ZooKeeper operations of
    masterapi.delete_server and the processing of its event."""
    print('O2: cycle between the deletes of delete_server and its event')
    w = World()
    w.bucket('pod:1', None, in_cell=True)
    w.bucket('rack:1', 'pod:1')
    for name in ('s1', 's2', 's3'):
        w.server(name, 'rack:1', event=False)
        w.presence(name)
    master = w.start_master()
    w.app('foo.a#0000000001')
    w.deliver()
    report(w, 'instance scheduled + cycle')
    victim = master.cell.apps['foo.a#0000000001'].server
    # The admin deletes the server: /servers/<s>, /placement/<s> ... go first,
    # the event is the last operation. Meanwhile instances are created and
    # the SCHEDULED watch + a cycle run (the model still has the server).
    admin_delete_server(w, victim, with_event=False)
    for i in range(2, 8):
        w.app('foo.b#%010d' % i)
    master.process_scheduled(w.zk.list(z.SCHEDULED))
    master.reschedule()
    landed = sorted(n for n, a in master.cell.apps.items()
                    if a.server == victim and n.startswith('foo.b'))
    print('        placed on %s by the cycle in between: %r'
          % (victim, landed))
    if not landed:
        print('  (nothing landed on the server, history not exercised)')
        return []
    w.event('servers', [victim])
    w.deliver()
    problems = report(w, 'servers event of the delete + cycle')
    w.event('apps', ['foo.a#0000000001'])
    w.deliver()
    problems += report(w, 'one more event + cycle')
    return problems


def obs_blank_server_record():
    """O3: server record without content (as after create_server's
    ensure_exists, before the data is written) + servers event."""
    print('O3: server record blanked at run time')
    w = World()
    w.bucket('pod:1', None, in_cell=True)
    w.bucket('rack:1', 'pod:1')
    for name in ('s1', 's2'):
        w.server(name, 'rack:1', event=False)
        w.presence(name)
    master = w.start_master()
    w.app('foo.a#0000000001')
    w.deliver()
    report(w, 'instance scheduled + cycle')
    home = master.cell.apps['foo.a#0000000001'].server
    w.zk.put(z.path.server(home), None)
    w.event('servers', [home])
    w.deliver()
    problems = report(w, 'record of %s blank (servers event) + cycle' % home)
    return problems


def main():
    import logging
    logging.disable(logging.CRITICAL)
    shown = []
    for obs in (obs_bucket_left_cell_then_server_deleted,
                obs_delete_server_race,
                obs_blank_server_record):
        try:
            if obs():
                shown.append(obs.__name__)
        except Exception as err:  # pylint: disable=W0703
            print('  harness/product exception (not counted): %r' % err)
    if shown:
        print('C09 does not hold on this tree for: %s' % ', '.join(shown))
        return 1
    print('no observation shows')
    return 0


if __name__ == '__main__':
    sys.exit(main())
