"""C03, clean-tree observation (not a variant).

traits.encode marks a trait that is not in the code table with the INVALID
bit (code 'invalid' == 1), "which no server carries".  The code table is keyed
by trait *name* though, and the reserved name is in it:  a server record whose
trait list contains the literal trait 'invalid' is encoded (create_server,
add_new=True) with exactly that bit.  Every instance that requires an unknown
trait is then placed on that server.

Run:  TM_LIB=<tree>/lib/python /venv/bin/python clean_obs.py
Exit 1 when the violation shows (it does on the unchanged tree), 0 otherwise.
"""

import os
import sys
import time

sys.path.insert(0, os.environ['TM_LIB'])

# pylint: disable=wrong-import-position
from treadmill import scheduler  # noqa: E402
from treadmill import zknamespace as z  # noqa: E402
from treadmill.scheduler import backend as be  # noqa: E402
from treadmill.scheduler import loader  # noqa: E402

scheduler.DIMENSION_COUNT = 3


class _Meta:
    """Node metadata."""
    def __init__(self, ctime):
        self.ctime = ctime


class FakeBackend(be.Backend):
    """In memory backend, a dict of path -> (data, ctime in ms)."""

    def __init__(self):
        super(FakeBackend, self).__init__()
        self.nodes = {}

    def _set(self, path, data):
        ctime = self.nodes[path][1] if path in self.nodes else (
            time.time() * 1000)
        self.nodes[path] = (data, ctime)

    def list(self, path):
        prefix = path.rstrip('/') + '/'
        found = set()
        for key in self.nodes:
            if key.startswith(prefix):
                found.add(key[len(prefix):].split('/')[0])
        if not found and path not in self.nodes:
            raise be.ObjectNotFoundError(path)
        return sorted(found)

    def get(self, path):
        if path not in self.nodes:
            raise be.ObjectNotFoundError(path)
        return self.nodes[path][0]

    def get_with_metadata(self, path):
        if path not in self.nodes:
            raise be.ObjectNotFoundError(path)
        data, ctime = self.nodes[path]
        return data, _Meta(ctime)

    def put(self, path, value):
        self._set(path, value)

    def exists(self, path):
        return path in self.nodes

    def ensure_exists(self, path):
        if path not in self.nodes:
            self._set(path, None)

    def delete(self, path):
        for key in list(self.nodes):
            if key == path or key.startswith(path + '/'):
                del self.nodes[key]

    def update(self, path, data, check_content=False):
        if path not in self.nodes:
            raise be.ObjectNotFoundError(path)
        self._set(path, data)

    def event_object(self):
        return None


SERVERS = {
    'plain.xx.com': ['ssd'],
    'odd.xx.com': ['invalid'],
}
APP = 'proid.web#0000000001'
APP_TRAITS = ['gpu']   # nobody offers 'gpu', it is not in the code table.


def main():
    """Run."""
    zk = FakeBackend()
    for path in [z.CELL, z.BUCKETS, z.SERVERS, z.PARTITIONS, z.SCHEDULED,
                 z.PLACEMENT, z.SERVER_PRESENCE, z.IDENTITY_GROUPS,
                 z.BLACKEDOUT_SERVERS]:
        zk.ensure_exists(path)
    zk.put(z.path.traits(), ['ssd'])
    zk.put(z.path.bucket('rack:r1'), {'traits': None})
    zk.put(z.CELL + '/rack:r1', {})
    for name, trait_list in SERVERS.items():
        zk.put(z.path.server(name), {
            'parent': 'rack:r1', 'partition': '_default',
            'traits': trait_list,
            'memory': '16G', 'cpu': '400%', 'disk': '100G',
            'up_since': int(time.time()) - 3600,
        })
        zk.put(z.path.server_presence(name), {})
    zk.put(z.path.scheduled(APP), {
        'affinity': 'proid.web', 'traits': APP_TRAITS,
        'memory': '1G', 'cpu': '100%', 'disk': '1G',
    })

    model = loader.Loader(zk, 'cell')
    model.load_model()
    model.cell.schedule()

    app = model.cell.apps[APP]
    print('trait codes: %r' % model.trait_codes)
    print('%s requires %r (encoded %s) => %s' % (
        APP, APP_TRAITS, app.traits, app.server))
    if app.server is not None:
        offered = SERVERS[app.server]
        missing = set(APP_TRAITS) - set(offered)
        if missing:
            print('C03 VIOLATED (unchanged tree): %s requires %s, placed on '
                  '%s which offers %s' % (APP, sorted(missing), app.server,
                                          offered))
            return 1
    print('not reproduced')
    return 0


if __name__ == '__main__':
    sys.exit(main())
