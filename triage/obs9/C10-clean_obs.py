"""Clean-tree observation for C10 (round 9): the definition of a server that
hosts instances is deleted in ZooKeeper while its placement node is left in
place (e.g. masterapi.delete_server interrupted after its first step, or a
plain ZooKeeper delete), then a 'servers' event for it is delivered.

Usage:  TM_LIB=<tree>/lib/python /venv/bin/python clean_obs.py
Exit 1 when the violation shows (it does on the unchanged tree), 0 otherwise.
"""

import copy
import logging
import os
import sys
import traceback

sys.path.insert(0, os.environ['TM_LIB'])

import mock  # noqa: E402

from treadmill import scheduler  # noqa: E402
from treadmill import zknamespace as z  # noqa: E402
from treadmill.scheduler import backend as be  # noqa: E402
from treadmill.scheduler import master  # noqa: E402

scheduler.DIMENSION_COUNT = 3
logging.disable(logging.CRITICAL)


class Crash(Exception):
    """The master process stops here."""


class Violation(Exception):
    """Property C10 does not hold."""


class Meta:
    def __init__(self, ctime):
        self.ctime = ctime


class MemBackend(be.Backend):
    def __init__(self, nodes=None, clock=1000000):
        super(MemBackend, self).__init__()
        self.nodes = nodes if nodes is not None else {'/': [None, 0]}
        self.clock = clock
        self.writes = 0
        self.crash_at = None
        self.log = []

    def clone(self):
        return MemBackend(copy.deepcopy(self.nodes), self.clock)

    def _write(self, oper, path):
        self.writes += 1
        if self.crash_at is not None and self.writes == self.crash_at:
            raise Crash('%s %s' % (oper, path))
        self.log.append((oper, path))

    def _create(self, path, value):
        path = path.rstrip('/') or '/'
        parent = os.path.dirname(path)
        if parent not in self.nodes:
            self._create(parent, None)
        self.clock += 1000
        self.nodes[path] = [value, self.clock]

    def raw_put(self, path, value):
        if path in self.nodes:
            self.nodes[path][0] = copy.deepcopy(value)
        else:
            self._create(path, copy.deepcopy(value))

    def raw_delete(self, path):
        for node in [n for n in self.nodes
                     if n == path or n.startswith(path + '/')]:
            del self.nodes[node]

    def raw_list(self, path):
        prefix = path.rstrip('/') + '/'
        return sorted(n[len(prefix):] for n in self.nodes
                      if n.startswith(prefix) and '/' not in n[len(prefix):])

    def raw_get(self, path):
        return copy.deepcopy(self.nodes[path][0])

    def list(self, path):
        path = path.rstrip('/') or '/'
        if path not in self.nodes:
            raise be.ObjectNotFoundError()
        return self.raw_list(path)

    def get(self, path):
        return self.get_with_metadata(path)[0]

    def get_with_metadata(self, path):
        if path not in self.nodes:
            raise be.ObjectNotFoundError()
        value, ctime = self.nodes[path]
        return copy.deepcopy(value), Meta(ctime)

    def exists(self, path):
        return path in self.nodes

    def put(self, path, value):
        self._write('put', path)
        self.raw_put(path, value)

    def ensure_exists(self, path):
        if path not in self.nodes:
            self._write('ensure_exists', path)
            self._create(path, None)

    def delete(self, path):
        self._write('delete', path)
        self.raw_delete(path)

    def update(self, path, data, check_content=False):
        if path not in self.nodes:
            raise be.ObjectNotFoundError()
        if check_content and self.nodes[path][0] == data:
            return
        self._write('update', path)
        self.nodes[path][0] = copy.deepcopy(data)

    def event_object(self):
        return mock.Mock()


def stored_placement(store):
    result = {}
    for server in store.raw_list(z.PLACEMENT):
        result[server] = set(store.raw_list(z.path.placement(server)))
    return result


def duplicates(store):
    seen = {}
    for server, apps in stored_placement(store).items():
        for app in apps:
            seen.setdefault(app, []).append(server)
    return {app: sorted(srv) for app, srv in seen.items() if len(srv) > 1}


def model_placement(mstr):
    result = {}
    for appname, app in mstr.cell.apps.items():
        if app.server:
            result.setdefault(app.server, set()).add(appname)
    return result


def describe(err):
    frame = traceback.extract_tb(sys.exc_info()[2])[-1]
    return '%r in %s (%s:%d: %s)' % (err, frame.name,
                                     os.path.basename(frame.filename),
                                     frame.lineno, frame.line)


def start_master(store):
    mstr = master.Master(store, 'demo-cell')
    mstr.create_rootns()
    mstr.load_model()
    mstr.init_schedule()
    return mstr


def check_published(store, mstr, where):
    dups = duplicates(store)
    if dups:
        raise Violation('%s: instance(s) placed twice: %r' % (where, dups))
    recorded = {s: a for s, a in stored_placement(store).items() if a}
    model = model_placement(mstr)
    if recorded != model:
        raise Violation('%s: published placement %r != model %r'
                        % (where, recorded, model))


def check_restart(store, where, deep=True):
    store = store.clone()
    try:
        mstr = start_master(store)
    except Exception as err:  # pylint: disable=broad-except
        raise Violation('%s: new master failed start-up: %s'
                        % (where, describe(err)))
    check_published(store, mstr, where + ' [after restart]')
    try:
        mstr.check_placement_integrity()
    except AssertionError as err:
        raise Violation('%s: new master failed its integrity check: %r'
                        % (where, err))
    # one more cycle must be a no-op
    store.writes = 0
    store.log = []
    try:
        mstr.reschedule()
        mstr.check_placement_integrity()
    except Exception as err:  # pylint: disable=broad-except
        raise Violation('%s: new master failed 2nd cycle: %s'
                        % (where, describe(err)))
    check_published(store, mstr, where + ' [after restart + cycle]')


class Admin:
    def __init__(self, store):
        self.store = store
        self.seq = 0

    def event(self, name, payload):
        self.seq += 1
        self.store.raw_put(
            z.path.event('000-%s-%010d' % (name, self.seq)), payload)


def deliver(mstr, store):
    mstr.process_server_presence(store.raw_list(z.SERVER_PRESENCE))
    mstr.process_scheduled(store.raw_list(z.SCHEDULED))
    events = store.raw_list(z.EVENTS)
    if events:
        mstr.process_events(events)
    mstr.process_server_presence(store.raw_list(z.SERVER_PRESENCE))
    mstr.up_to_date = False


def cycle(mstr):
    mstr.reschedule()
    mstr.check_placement_integrity()


# ---------------------------------------------------------------------------
# Stored state and ZooKeeper-level events.
# ---------------------------------------------------------------------------
SERVERS = {
    's1.xx.com': 'rack:r1',
    's2.xx.com': 'rack:r1',
    's3.xx.com': 'rack:r2',
    's4.xx.com': 'rack:r2',
}
RACKS = {'rack:r1': 'pod:p1', 'rack:r2': 'pod:p2'}
APPS = ['proid.web#%010d' % i for i in range(1, 11)]


def server_data(rack, memory='16G'):
    """Server definition (admin part + what the node reported)."""
    return {'memory': memory, 'disk': '100G', 'cpu': '800%',
            'parent': rack, 'partition': '_default', 'up_since': 100}


def initial_store():
    """Two pods, a rack each, four servers, ten instances."""
    store = MemBackend()
    for pod in ('pod:p1', 'pod:p2'):
        store.raw_put(z.path.bucket(pod), {'traits': None})
        store.raw_put(z.path.cell(pod), None)
    for rack, pod in RACKS.items():
        store.raw_put(z.path.bucket(rack), {'traits': None, 'parent': pod})
    for server, rack in SERVERS.items():
        store.raw_put(z.path.server(server), server_data(rack))
        store.raw_put(z.path.server_presence(server), {})
    for app in APPS:
        store.raw_put(z.path.scheduled(app), {
            'memory': '1G', 'disk': '1G', 'cpu': '10%',
            'affinity': 'proid.web'})
    return store


def ev_bucket_inserted(admin):
    """masterapi.create_bucket + cell_insert_bucket for a new, empty pod."""
    admin.store.raw_put(z.path.bucket('pod:p3'), {'traits': None})
    admin.event('buckets', None)
    admin.store.raw_put(z.path.cell('pod:p3'), None)
    admin.event('cell', None)
    return "empty pod:p3 inserted into the cell ('buckets' + 'cell' events)"


def ev_server_node_deleted(admin):
    """Server definition deleted, placement node left, 'servers' event."""
    admin.store.raw_delete(z.path.server('s3.xx.com'))
    admin.event('servers', ['s3.xx.com'])
    return ("/servers/s3.xx.com deleted (placement node left in place), "
            "'servers' event for it")


def prepared(base, event):
    """A running master that has handled the event.  Returns
    (store, master or None, what); master is None when handling the event
    made the master process exit (unhandled exception)."""
    store = base.clone()
    mstr = start_master(store)
    what = event(Admin(store))
    try:
        deliver(mstr, store)
    except Exception as err:  # pylint: disable=broad-except
        # utils.exit_on_unhandled: the process exits, a new master is
        # elected on whatever is stored.
        return store, None, '%s; master exited handling it: %s' % (
            what, describe(err))
    store.writes = 0
    return store, mstr, what


def sweep(base, event):
    """Stop the master before every write of the next cycle, and after it."""
    store, mstr, what = prepared(base, event)
    if mstr is None:
        dups = duplicates(store)
        if dups:
            raise Violation('%s: instance(s) placed twice: %r' % (what, dups))
        check_restart(store, what)
        return 1

    mstr.reschedule()
    total = store.writes
    count = 0
    for crash_at in range(1, total + 2):
        store, mstr, what = prepared(base, event)
        before = stored_placement(store)
        store.crash_at = crash_at
        try:
            mstr.reschedule()
            stopped = ('master stopped after the last write of the cycle '
                       '(before its integrity check)')
        except Crash as crash:
            stopped = 'master stopped before write #%d (%s)' % (crash_at,
                                                                crash)
        store.crash_at = None
        where = '%s; next cycle: %s' % (what, stopped)
        dups = duplicates(store)
        if dups:
            raise Violation(
                '%s: instance(s) placed twice in storage: %r (recorded '
                'before the cycle under: %r)'
                % (where, dups,
                   {a: s for s, apps in before.items() for a in apps
                    if a in dups}))
        check_restart(store, where)
        count += 1
    return count


def main():
    """Run the histories."""
    base = initial_store()
    first = start_master(base)
    try:
        check_published(base, first, 'initial publication')
        placed = stored_placement(base)
        if not (placed.get('s3.xx.com') or placed.get('s4.xx.com')):
            print('demo set-up error: nothing placed in pod:p2')
            return 2
        total = 0
        for event in (ev_bucket_inserted, ev_server_node_deleted):
            total += sweep(base, event)
    except Violation as err:
        print('C10 VIOLATED: %s' % err)
        return 1
    print('C10 holds at all %d crash points tried.' % total)
    return 0


if __name__ == '__main__':
    sys.exit(main())
