"""Clean-tree observations for C18 (run against the UNCHANGED tree).

  TM_LIB=<tree>/lib/python /venv/bin/python clean_obs.py

Obs 1  finished record that still sits in a kept (newest) snapshot vanishes
       from the state API after the archiver was interrupted between upload
       and delete, re-ran, and the older duplicate snapshot was pruned
       (api/state.py watch_finished_history, unload loop).
Obs 2  AppTraceLoop walks /trace.history in get_children() order (ZooKeeper
       guarantees none); when a newer snapshot is listed before an older one
       the older events of the instance are dropped by the "older than the
       last one" filter of TraceLoop._process_events.
Obs 3  the payload (node data) of trace events is not archived: cleanup_trace
       builds the snapshot rows with data=None.

Exit 1 when at least one observation shows, 0 otherwise.
"""

from __future__ import print_function

import os
import sqlite3
import sys
import tempfile
import threading
import zlib

sys.path.insert(0, os.environ['TM_LIB'])

import kazoo.client  # noqa: E402  pylint: disable=wrong-import-position
import mock  # noqa: E402  pylint: disable=wrong-import-position

from treadmill import zknamespace as z  # noqa: E402
from treadmill.api import state as state_api  # noqa: E402
from treadmill.trace.app import zk as app_zk  # noqa: E402

NoNodeError = kazoo.client.NoNodeError
NodeExistsError = kazoo.client.NodeExistsError


class Crash(Exception):
    """Archiver process dies."""


class _Stat(object):
    def __init__(self, mtime):
        self.last_modified = mtime


class _Handler(object):
    @staticmethod
    def event_object():
        return threading.Event()


class FakeZk(object):
    """Tiny in-memory ZooKeeper with persistent children watches."""

    handler = _Handler()

    def __init__(self):
        self.nodes = {'/': (b'', 0.0)}
        self.seq = {}
        self.child_watches = {}
        self.crash_on_delete = False
        self.reverse_children_of = set()

    @staticmethod
    def _parent(path):
        parent = path.rsplit('/', 1)[0]
        return parent or '/'

    def ensure(self, path, value=b''):
        if path in self.nodes:
            return
        self.ensure(self._parent(path))
        self.nodes[path] = (value, 0.0)
        self._fire(self._parent(path))

    def _fire(self, parent):
        for func in self.child_watches.get(parent, []):
            func(self.get_children(parent))

    def make_default_acl(self, acl):
        return acl

    def make_servers_acl(self):
        return None

    def get_children(self, path, watch=None):
        if path not in self.nodes:
            raise NoNodeError(path)
        prefix = path.rstrip('/') + '/'
        children = sorted(p[len(prefix):] for p in self.nodes
                          if p != '/' and p.startswith(prefix) and
                          '/' not in p[len(prefix):])
        if path in self.reverse_children_of:
            children.reverse()
        return children

    def exists(self, path, watch=None):
        if path in self.nodes:
            return _Stat(self.nodes[path][1])
        return None

    def get(self, path, watch=None):
        if path not in self.nodes:
            raise NoNodeError(path)
        data, mtime = self.nodes[path]
        return data, _Stat(mtime)

    def create(self, path, value=b'', acl=None, ephemeral=False,
               sequence=False, makepath=False):
        if isinstance(value, str):
            value = value.encode()
        parent = self._parent(path)
        if parent not in self.nodes:
            if not makepath:
                raise NoNodeError(parent)
            self.ensure(parent)
        if sequence:
            num = self.seq.get(parent, 0)
            self.seq[parent] = num + 1
            path = '%s%010d' % (path, num)
        if path in self.nodes:
            raise NodeExistsError(path)
        self.nodes[path] = (value, 0.0)
        self._fire(parent)
        return path

    def set(self, path, value, version=-1):
        if path not in self.nodes:
            raise NoNodeError(path)
        self.nodes[path] = (value, 0.0)

    def set_acls(self, path, acls, version=-1):
        pass

    def delete(self, path, version=-1, recursive=False):
        if self.crash_on_delete:
            raise Crash(path)
        if path not in self.nodes:
            raise NoNodeError(path)
        del self.nodes[path]
        self._fire(self._parent(path))

    def ChildrenWatch(self, path):  # pylint: disable=invalid-name
        def _decorator(func):
            self.child_watches.setdefault(path, []).append(func)
            func(self.get_children(path))
            return func
        return _decorator

    def DataWatch(self, path):  # pylint: disable=invalid-name
        def _decorator(func):
            if path in self.nodes:
                data, mtime = self.nodes[path]
                func(data, _Stat(mtime), None)
            else:
                func(None, None, None)
            return func
        return _decorator


def snapshot_rows(zkclient, history, table, columns='name'):
    rows = {}
    for node in sorted(zkclient.get_children(history)):
        data, _ = zkclient.get(z.join_zookeeper_path(history, node))
        with tempfile.NamedTemporaryFile(delete=False, mode='wb') as f:
            f.write(zlib.decompress(data))
        conn = sqlite3.connect(f.name)
        rows[node] = list(conn.execute('SELECT %s FROM %s' % (columns, table)))
        conn.close()
        os.unlink(f.name)
    return rows


SUMMARY = (b'{"state": "finished", "when": "100.0", "host": "node1", '
           b'"data": "0.0"}')


def obs1():
    """State API forgets a record that is still in a kept snapshot."""
    zkclient = FakeZk()
    for path in (z.FINISHED, z.FINISHED_HISTORY, z.SCHEDULED):
        zkclient.ensure(path)
    first = ['proid.x#%010d' % idx for idx in (1, 2, 3)]
    for instance in first:
        zkclient.ensure(z.path.finished(instance), SUMMARY)

    cell_state = state_api.CellState()
    state_api.watch_finished(zkclient, cell_state)
    state_api.watch_finished_history(zkclient, cell_state)

    # Run 1: archiver dies after the upload, before the first delete.
    zkclient.crash_on_delete = True
    try:
        app_zk.cleanup_finished(zkclient, 3, 60)
    except Crash:
        pass
    zkclient.crash_on_delete = False
    # Run 2 (restart): same batch is uploaded again, then deleted.
    app_zk.cleanup_finished(zkclient, 3, 60)
    # Later: three more instances finish and expire, history is pruned.
    for idx in (4, 5, 6):
        zkclient.ensure(z.path.finished('proid.y#%010d' % idx), SUMMARY)
    app_zk.cleanup_finished(zkclient, 3, 60)
    app_zk.cleanup_finished_history(zkclient, 2)

    rows = snapshot_rows(zkclient, z.FINISHED_HISTORY, 'finished')
    shown = False
    for instance in first:
        holders = [node for node, names in rows.items()
                   if (instance,) in names]
        if holders and cell_state.get_finished(instance) is None:
            shown = True
            print('obs1: %s is in kept snapshot(s) %s but the state API '
                  'answers None (popped when the pruned duplicate was '
                  'unloaded)' % (instance, holders))
    return shown


def obs2():
    """Reader drops older events when snapshots are listed newest first."""
    zkclient = FakeZk()
    for path in (z.SCHEDULED, z.TRACE, z.TRACE_HISTORY, z.FINISHED):
        zkclient.ensure(path)
    instance = 'proid.app#0000000007'
    names = []
    for idx in range(6):
        node = '%.2f,node1,service_running,uniq.web' % (1000.0 + idx)
        zkclient.ensure(z.path.trace(instance, node))
        names.append('%s,%s' % (instance, node))
    with mock.patch('time.time', mock.Mock(return_value=5000.0)):
        app_zk.cleanup_trace(zkclient, 3, 60)      # two snapshots of 3

    def _read():
        seen = []

        class _Collector(object):
            @staticmethod
            def process(event, ctx=None):
                del ctx
                seen.append(float(event.timestamp))

        loop = app_zk.AppTraceLoop(zkclient, instance, _Collector())
        loop.run(snapshot=True)
        return seen

    in_order = _read()
    zkclient.reverse_children_of.add(z.TRACE_HISTORY)
    reversed_order = _read()
    if len(reversed_order) < len(in_order):
        print('obs2: with /trace.history listed newest first the reader '
              'delivers %d of %d archived events (%r)'
              % (len(reversed_order), len(in_order), reversed_order))
        return True
    return False


def obs3():
    """Payload of trace events is not archived."""
    zkclient = FakeZk()
    for path in (z.SCHEDULED, z.TRACE, z.TRACE_HISTORY, z.FINISHED,
                 z.PLACEMENT):
        zkclient.ensure(path)
    instance = 'proid.app#0000000009'
    payload = '{"why": "image not found", "detail": "..."}'
    for idx in range(3):
        app_zk.publish(zkclient, '%.2f' % (1000.0 + idx), instance,
                       'aborted', 'image', payload)
    before = {path: data for path, (data, _) in zkclient.nodes.items()
              if path.startswith(z.TRACE + '/') and ',' in path}
    with mock.patch('time.time', mock.Mock(return_value=5000.0)):
        app_zk.cleanup_trace(zkclient, 3, 60)
    rows = snapshot_rows(zkclient, z.TRACE_HISTORY, 'trace', 'path, data')
    shown = False
    for node, items in rows.items():
        for path, data in items:
            if before.get(path) and not data:
                shown = True
                print('obs3: %s had payload %r, snapshot %s keeps data=%r'
                      % (path, before[path], node, data))
    return shown


def main():
    shown = [obs1(), obs2(), obs3()]
    if any(shown):
        print('clean-tree observations shown: %s'
              % [idx + 1 for idx, flag in enumerate(shown) if flag])
        return 1
    print('no observation shown')
    return 0


if __name__ == '__main__':
    sys.exit(main())
