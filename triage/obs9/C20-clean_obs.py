"""Clean-tree observation for C20 (NOT a seeded variant).

In reevaluate() the 'Monitor active again' alert of an application that leaves
the rate-limited state is written *inside* the try block of the create request,
after the request succeeded and *before* ``conf['available'] -= allowed``.  If
writing the alert fails (alerts directory unusable: disk full, removed, ...),
the generic ``except Exception`` handler swallows the error and the tokens of
the request that DID succeed are never taken from the bucket: the same token is
spent again by the next evaluation.

Drives the real reevaluate() and the real make_alerter()/alert.create() under a
virtual clock; restclient.post is a fake API that creates the instances.

exit 1 when more instances were requested (successfully) than the token bucket
(refill 2*count per hour, starting from an empty bucket) allows, exit 0
otherwise.
"""

from __future__ import print_function

import math
import os
import shutil
import sys
import tempfile

sys.path.insert(0, os.environ['TM_LIB'])

import mock  # noqa: E402

from treadmill.sproc import appmonitor  # noqa: E402

APP = 'proid.web'
COUNT = 1
RATE = 2.0 * COUNT / 3600
API = 'http://cellapi'
CLOCK = [10000.0]
CREATED = []
SEQ = [0]


def main():
    zkclient = mock.Mock()
    root = tempfile.mkdtemp()
    alerts_dir = os.path.join(root, 'alerts')
    os.mkdir(alerts_dir)
    alerter = appmonitor.make_alerter(alerts_dir, 'test')

    t_start = CLOCK[0]
    state = {
        'scheduled': {APP: []},
        'monitors': {
            APP: {'count': COUNT, 'available': 0.0, 'rate': RATE,
                  'last_update': t_start, 'policy': None},
        },
        'suspended': {},
    }

    def fake_post(api, url, payload=None, headers=None, **_kw):
        count = int(url.rpartition('=')[2])
        for _ in range(count):
            SEQ[0] += 1
            state['scheduled'][APP].append('%s#%010d' % (APP, SEQ[0]))
        CREATED.append((CLOCK[0], count))
        return mock.Mock()

    with mock.patch('treadmill.restclient.post', fake_post), \
            mock.patch('treadmill.zkutils.update', mock.Mock()), \
            mock.patch('time.time', lambda: CLOCK[0]):

        # 1. Empty bucket, one instance missing: rate limited (alert written).
        waited = appmonitor.reevaluate(API, alerter, state, zkclient, {})
        assert APP in waited and not CREATED, (waited, CREATED)

        # 2. The alerts directory becomes unusable (here: replaced by a file).
        shutil.rmtree(alerts_dir)
        open(alerts_dir, 'w').close()

        # 3. Half an hour later one token has accrued: the instance is created,
        #    the 'active again' alert can not be written.
        CLOCK[0] += 1801
        waited = appmonitor.reevaluate(API, alerter, state, zkclient, waited)

        # 4. The new instance dies, next evaluation one second later.
        state['scheduled'][APP] = []
        CLOCK[0] += 1
        waited = appmonitor.reevaluate(API, alerter, state, zkclient, waited)

    total = sum(c for _t, c in CREATED)
    budget = int(math.floor(RATE * (CLOCK[0] - t_start)))
    print('created: %r, tokens accrued since the bucket was empty: %d, '
          'available now: %r'
          % (CREATED, budget, state['monitors'][APP]['available']))
    if total > budget:
        print('CLEAN-TREE OBSERVATION: %d instances requested successfully on '
              'a budget of %d token(s): the request at t+1801 was not charged '
              '(alert_f raised inside the try block before the deduction)'
              % (total, budget))
        return 1
    print('not reproduced')
    return 0


if __name__ == '__main__':
    sys.exit(main())
