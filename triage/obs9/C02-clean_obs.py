"""Clean-tree observation for C02 (not a seeded variant).

Affinity.constraints is tuple([name] + sorted(limits.values())): the LEVELS of
the affinity limits are dropped, only the sorted values stay. Two instances of
the same affinity whose limits are {'rack': 1} and {'server': 1} therefore have
the same PlacementFeasibilityTracker key. When the first is pending for good
(its rack is at the limit) and comes first in the queue, the second (same or
larger demand) is skipped as 'not feasible' although a server fits it.

Exit 1 when the violation shows.
"""

import os
import sys

sys.path.insert(0, os.environ['TM_LIB'])

import time  # noqa: E402

from treadmill import scheduler  # noqa: E402

scheduler.DIMENSION_COUNT = 3


def ancestors(node):
    """Yield the node and all the nodes above it."""
    while node is not None:
        yield node
        node = node.parent


def fits(cell, app):
    """Leaf scan."""
    result = []
    for name, srv in sorted(cell.members().items()):
        if srv.state is not scheduler.State.up:
            continue
        if app.allocation.label not in srv.labels:
            continue
        if (srv.traits.self_traits & app.traits) != app.traits:
            continue
        used = sum((a.demand for a in srv.apps.values()),
                   scheduler.zero_capacity())
        if any(app.demand > srv.init_capacity - used):
            continue
        if all(
                sum(1 for leaf in node.members().values()
                    for a in leaf.apps.values()
                    if a.affinity.name == app.affinity.name)
                < app.affinity.limits[node.level]
                for node in ancestors(srv)):
            result.append(name)
    return result


def main():
    """Run the scenario."""
    cell = scheduler.Cell('cell')
    rack = scheduler.Bucket('rack:r1', level='rack')
    cell.add_node(rack)
    for name in ('s1', 's2'):
        rack.add_node(scheduler.Server(
            name, [10, 10, 10], valid_until=time.time() + 10 * 86400,
            label='_default'))
    alloc = cell.partitions['_default'].allocation

    def submit(name, limits):
        app = scheduler.Application(name, 10, [1, 1, 1], 'proid.web',
                                    affinity_limits=limits)
        cell.add_app(alloc, app)
        return app

    first = submit('proid.web#1', {'rack': 1})
    cell.schedule()
    assert first.server
    blocked = submit('proid.web#2', {'rack': 1})
    cell.schedule()
    cell.schedule()
    assert blocked.server is None and not fits(cell, blocked)

    probe = submit('proid.web#3', {'server': 1})
    expected = fits(cell, probe)
    cell.schedule()
    print('keys: %r / %r' % (blocked.shape()[0], probe.shape()[0]))
    print('fits (leaf scan): %r, placed on: %r' % (expected, probe.server))
    if expected and not probe.server:
        print('VIOLATION C02 on the unchanged tree: %s pending although it '
              'fits %r' % (probe.name, expected))
        return 1
    print('OK')
    return 0


if __name__ == '__main__':
    sys.exit(main())
