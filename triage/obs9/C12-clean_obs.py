"""Clean-tree observation for C12: a Treadmill root whose path contains glob
magic characters ('[', '?', '*').

EventMgr._synchronize lists the cache with
    glob.glob(os.path.join(self.tm_env.cache_dir, '*'))
without escaping cache_dir, so with root=/.../tm[1] the pattern looks into
/.../tm1/cache and the current set is always empty: extra entries are never
removed (and every placed entry is rewritten on every event).

Exit 1 when the violation shows (cache names an instance that is not placed
after a synchronisation), 0 otherwise.
"""

from __future__ import print_function

import collections
import json
import os
import shutil
import sys
import tempfile
import time

sys.path.insert(0, os.environ['TM_LIB'])

import kazoo.exceptions  # noqa: E402
import mock  # noqa: E402

from treadmill import eventmgr  # noqa: E402
from treadmill import zknamespace as z  # noqa: E402

Stat = collections.namedtuple('Stat', 'ctime mtime version')


class FakeZk:
    """Just enough of a kazoo client."""

    def __init__(self):
        self.nodes = {}

    def create(self, path, data):
        now = int(time.time() * 1000)
        self.nodes[path] = (json.dumps(data).encode(), Stat(now, now, 0))

    def get(self, path, watch=None):
        try:
            return self.nodes[path]
        except KeyError:
            raise kazoo.exceptions.NoNodeError(path)


def main():
    base = tempfile.mkdtemp(prefix='c12obs-')
    try:
        root = os.path.join(base, 'tm[1]')
        cache_dir = os.path.join(root, 'cache')
        os.makedirs(cache_dir)
        with mock.patch('treadmill.appenv.AppEnvironment',
                        mock.Mock(autospec=True)):
            evmgr = eventmgr.EventMgr(root=root)
        evmgr.tm_env.root = root
        evmgr.tm_env.cache_dir = cache_dir
        host = evmgr._hostname  # pylint: disable=protected-access

        zk = FakeZk()
        app = 'proid.web#0000000011'
        zk.create(z.path.scheduled(app), {'memory': '1G'})
        zk.create(z.path.placement(host, app), {'identity': 1})

        # pylint: disable=protected-access
        evmgr._synchronize(zk, [app], check_existing=True)
        # The instance leaves the node.
        del zk.nodes[z.path.placement(host, app)]
        evmgr._synchronize(zk, [])

        names = [n for n in os.listdir(cache_dir) if not n.startswith('.')]
        if names:
            print('C12 VIOLATED on the unchanged tree: nothing is placed but '
                  'the cache of root %r still names %r' % (root, names))
            return 1
        print('cache is empty')
        return 0
    finally:
        shutil.rmtree(base, ignore_errors=True)


if __name__ == '__main__':
    sys.exit(main())
