"""C15: observations on the UNCHANGED tree (no variant applied).

Run as  TM_LIB=<tree>/lib/python /venv/bin/python clean_obs.py
Exits 1 when at least one of the observations below shows, 0 otherwise.
"""

from __future__ import print_function

import os
import sys

sys.path.insert(0, os.environ['TM_LIB'])

# pylint: disable=wrong-import-position,protected-access
from treadmill import firewall  # noqa: E402
from treadmill import rulefile  # noqa: E402
from treadmill.admin import _ldap  # noqa: E402
from treadmill.trace.app import events  # noqa: E402


def obs_any_ip_identity():
    """_filenameify tests `rule.src_ip is firewall.ANY_IP` (identity)."""
    # An equal, but not identical, '0.0.0.0/0' (ex. read from a json/yaml).
    any_ip = ''.join(['0.0.0.0', '/0'])
    rule1 = firewall.DNATRule('tcp', '10.0.0.1', 80, src_ip=any_ip,
                              dst_ip='1.2.3.4', dst_port=8080)
    rule2 = firewall.DNATRule('tcp', '10.0.0.1', 80,
                              dst_ip='1.2.3.4', dst_port=8080)
    name1 = rulefile.RuleMgr._filenameify('PREROUTING', rule1)
    name2 = rulefile.RuleMgr._filenameify('PREROUTING', rule2)
    found = []
    if rule1 == rule2 and name1 != name2:
        found.append('equal rules %r encode as %r and %r' %
                     (rule1, name1, name2))
    if rulefile.RuleMgr.get_rule(name1) != ('PREROUTING', rule1):
        found.append('%r decodes to %r' %
                     (name1, rulefile.RuleMgr.get_rule(name1)))
    return found


def obs_update_empty_list():
    """_dict_2_entry emits nothing for an empty list value."""
    app = _ldap.Application(None)
    stored = _ldap._remove_empty(app.to_entry({
        'cpu': '10%', 'traits': ['a'], 'args': ['x'],
        'services': [], 'endpoints': [],
    }))
    written = {'traits': [], 'args': []}
    new_entry = app.to_entry(dict(written))
    # What Admin.update() does: fetch the attributes named in new_entry
    # (options stripped), diff, modify.
    wanted = _ldap._entry_plain_keys(new_entry)
    old_entry = {k: v for k, v in stored.items()
                 if k.split(';', 1)[0] in wanted}
    diff = _ldap._diff_entries(old_entry, new_entry)
    for attr, changes in diff.items():
        for _op, values in changes:
            if values:
                stored[attr] = values
            else:
                stored.pop(attr, None)
    read = app.from_entry(stored)
    found = []
    for key, value in written.items():
        if read[key] != value:
            found.append('update wrote %s=%r, stored object still has %r' %
                         (key, value, read[key]))
    return found


def obs_trace_none():
    """'%s:%s' % (where, None) / None -> ''."""
    found = []
    for event in [
            events.ScheduledTraceEvent(where='srv1', why=None, timestamp=1.0,
                                       source='s', instanceid='a.b#1'),
            events.PendingTraceEvent(why=None, timestamp=1.0,
                                     source='s', instanceid='a.b#1'),
    ]:
        back = events.AppTraceEvent.from_data(*event.to_data())
        if back != event:
            found.append('%r decodes to %r' % (event, back))
    return found


def main():
    """Run the observations."""
    found = []
    for obs in [obs_any_ip_identity, obs_update_empty_list, obs_trace_none]:
        res = obs()
        for line in res:
            print('%s: %s' % (obs.__name__, line))
        found.extend(res)
    return 1 if found else 0


if __name__ == '__main__':
    sys.exit(main())
