"""C13 clean-tree observations: histories for which the UNCHANGED tree violates
the property as stated.  Run as

    TM_LIB=<tree>/lib/python /venv/bin/python clean_obs.py [scenario ...]

Exit 1 when at least one scenario shows a violation, 0 otherwise.

Same harness as the demos: real EventMgr (ZooKeeper reads mocked) writing into
a real cache directory, real AppCfgMgr handlers fed by a real inotify
DirWatcher wired as AppCfgMgr.run() does (process_events(max_events=5)), real
appcfg.configure (stub runtime class, svscan control mocked), real
monitor.MonitorContainerCleanup / MonitorContainerDown, real Cleanup.invoke and
RuntimeBase.finish (stubbed resource release).

Scenarios:
  burst      place / evict / place of one instance queued before the manager
             handles the first event -> the container ends up linked in
             running/ AND cleanup/.
  flipburst  ready file re-created, then evict + place of a running instance
             before the manager handles the ready event -> same double link.
  resync     old generation still in cleanup, new generation running, presence
             flip -> the resynchronisation terminates the new generation
             (depends on the iteration order of a set of strings: the scenario
             is re-run under several PYTHONHASHSEED values).
  tombstone  tombstone of an evicted generation handled after the instance was
             placed again -> the new generation is handed to cleanup.
  rerun      container finished on its own, its cleanup completed, manifest
             still cached, presence flip -> the very same container (same
             unique name) is configured and started again.
"""

from __future__ import print_function

import os
import shutil
import subprocess
import sys
import tempfile

sys.path.insert(0, os.environ['TM_LIB'])

import mock  # noqa: E402

from treadmill import appcfg  # noqa: E402
from treadmill import appcfgmgr  # noqa: E402
from treadmill import cleanup  # noqa: E402
from treadmill import context  # noqa: E402
from treadmill import dirwatch  # noqa: E402
from treadmill import eventmgr  # noqa: E402
from treadmill import fs  # noqa: E402
from treadmill import monitor  # noqa: E402
from treadmill.runtime import runtime_base  # noqa: E402


INST = 'proid.app#0000000001'


class _StubRuntimeCls(object):
    """Runtime class that does not alter the manifest."""
    name = 'linux'

    @classmethod
    def manifest(cls, _tm_env, _manifest):
        """No runtime specific changes."""
        return None


class _Runtime(runtime_base.RuntimeBase):
    """Real RuntimeBase.finish(), stubbed resource release."""
    # pylint: disable=abstract-method
    __slots__ = ()

    def _can_run(self, _manifest):
        return True

    def _run(self, _manifest):
        raise AssertionError('not used')

    def kill(self):
        raise AssertionError('not used')

    def _finish(self):
        return None


def _manifest():
    return {
        'proid': 'proid',
        'environment': 'dev',
        'services': [{
            'name': 'web',
            'command': '/bin/sleep 5',
            'restart': {'limit': 0, 'interval': 60},
            'environ': [],
        }],
        'cpu': '10%',
        'memory': '100M',
        'disk': '100M',
    }


def _links(directory):
    """name -> basename of the link target, for all (non dot) links."""
    res = {}
    for name in os.listdir(directory):
        path = os.path.join(directory, name)
        if os.path.islink(path) and not name.startswith('.'):
            res[name] = os.path.basename(os.readlink(path))
    return res


class _World(object):
    """One node: cache, manager + watcher, event manager."""
    # pylint: disable=protected-access,too-many-instance-attributes

    def __init__(self):
        base = os.environ.get('TMPDIR') or None
        self.root = tempfile.mkdtemp(prefix='c13obs-', dir=base)
        for name in ('cache', 'apps', 'running', 'cleanup'):
            fs.mkdir_safe(os.path.join(self.root, name))
        self.running_dir = os.path.join(self.root, 'running')
        self.cleanup_dir = os.path.join(self.root, 'cleanup')
        self.apps_dir = os.path.join(self.root, 'apps')
        self.cache_dir = os.path.join(self.root, 'cache')
        self.evmgr = eventmgr.EventMgr(self.root)
        self.mgr = appcfgmgr.AppCfgMgr(self.root, 'linux')
        self.tm_env = self.mgr.tm_env
        self.watch = dirwatch.DirWatcher(self.tm_env.cache_dir)
        self.watch.on_created = self.mgr._on_created
        self.watch.on_modified = self.mgr._on_modified
        self.watch.on_deleted = self.mgr._on_deleted
        self.zkclient = mock.Mock()

    def pump(self):
        """Let the manager consume all pending cache events."""
        while self.watch.wait_for_events(timeout=0.2):
            self.watch.process_events(max_events=5)

    def place(self, instances):
        """The scheduler placement of the node becomes `instances`."""
        self.evmgr._synchronize(self.zkclient, instances)

    def ready(self, is_ready):
        """Presence of the node."""
        self.evmgr._cache_notify(is_ready)

    def cached(self, instance=INST):
        """Container named by the cache for instance."""
        return appcfg.eventfile_unique_name(
            os.path.join(self.cache_dir, instance)
        )

    def refs(self, container):
        """All links referring to container."""
        res = [('running', name)
               for name, target in _links(self.running_dir).items()
               if target == container]
        res += [('cleanup', name)
                for name, target in _links(self.cleanup_dir).items()
                if target == container]
        return sorted(res)

    def close(self):
        """Remove the node."""
        shutil.rmtree(self.root, ignore_errors=True)


def scenario_burst(world):
    """place / evict / place queued before the first event is handled."""
    world.ready(True)
    world.pump()
    world.place([INST])
    world.place([])
    world.place([INST])
    world.pump()
    container = world.cached()
    refs = world.refs(container)
    if len(refs) > 1:
        return ['container %s (cached, unchanged) is referenced by %r' %
                (container, refs)]
    return []


def scenario_flipburst(world):
    """ready re-created, evict + place before the ready event is handled."""
    world.place([INST])
    world.ready(True)
    world.pump()
    world.ready(False)
    world.pump()
    world.ready(True)
    world.place([])
    world.place([INST])
    world.pump()
    container = world.cached()
    refs = world.refs(container)
    if refs != [('running', INST)]:
        return ['container %s (cached, unchanged) is referenced by %r' %
                (container, refs)]
    return []


def scenario_resync(world):
    """old generation in cleanup + new generation running + resync."""
    world.place([INST])
    world.ready(True)
    world.pump()
    old = world.cached()
    world.place([])
    world.pump()
    world.place([INST])
    world.pump()
    new = world.cached()
    if world.refs(old) != [('cleanup', old)] or \
            world.refs(new) != [('running', INST)]:
        return ['setup failed: %r %r' % (world.refs(old), world.refs(new))]
    world.ready(False)
    world.pump()
    world.ready(True)
    world.pump()
    refs = world.refs(new)
    if refs != [('running', INST)]:
        return ['after the resynchronisation container %s (cached, unchanged, '
                'was running) is referenced by %r; old generation %s: %r' %
                (new, refs, old, world.refs(old))]
    return []


def scenario_tombstone(world):
    """tombstone of the evicted generation handled after the re-placement."""
    world.place([INST])
    world.ready(True)
    world.pump()
    world.place([])
    world.pump()
    world.place([INST])
    world.pump()
    new = world.cached()
    # The evicted container finally went down: its finish script dropped the
    # tombstone '<instance>,...' which the monitor hands to this action.
    monitor.MonitorContainerCleanup(world.tm_env, {}).execute({
        'id': INST, 'return_code': 256, 'signal': 15, 'timestamp': 1.0,
    })
    refs = world.refs(new)
    if refs != [('running', INST)]:
        return ['container %s (cached, unchanged, did not finish) is '
                'referenced by %r' % (new, refs)]
    return []


def scenario_rerun(world):
    """finished + cleaned up container configured again under the same name."""
    world.place([INST])
    world.ready(True)
    world.pump()
    container = world.cached()
    monitor.MonitorContainerDown(world.tm_env, {}).execute({
        'id': '%s,web' % container,
        'return_code': 0, 'signal': 0, 'timestamp': 1.0,
    })
    monitor.MonitorContainerCleanup(world.tm_env, {}).execute({
        'id': INST, 'return_code': 0, 'signal': 0, 'timestamp': 2.0,
    })
    for request in sorted(_links(world.cleanup_dir)):
        cleanup.Cleanup(world.tm_env).invoke('linux', request)
    if os.listdir(world.apps_dir) or _links(world.cleanup_dir):
        return ['setup failed: not cleaned up']
    # The scheduler did not react yet: the manifest is still cached.
    world.ready(False)
    world.pump()
    world.ready(True)
    world.pump()
    refs = world.refs(container)
    if refs:
        return ['container %s finished (exitinfo), was cleaned up, and is '
                'configured and started again under the same name: %r' %
                (container, refs)]
    return []


SCENARIOS = {
    'burst': scenario_burst,
    'flipburst': scenario_flipburst,
    'resync': scenario_resync,
    'tombstone': scenario_tombstone,
    'rerun': scenario_rerun,
}
ORDER = ['burst', 'flipburst', 'resync', 'tombstone', 'rerun']


def run_one(name):
    """Run one scenario, return the list of violations."""
    context.GLOBAL.cell = 'test'
    context.GLOBAL.zk.url = 'zookeeper://foo@localhost:2181/treadmill'
    metadata = mock.Mock(ctime=1000)
    world = _World()
    try:
        with mock.patch('treadmill.zkutils.get_with_metadata',
                        return_value=(None, metadata)), \
                mock.patch('treadmill.zkutils.get',
                           side_effect=lambda *a, **kw: _manifest()), \
                mock.patch('treadmill.runtime.get_runtime_cls',
                           return_value=_StubRuntimeCls), \
                mock.patch('treadmill.appcfg.manifest.add_manifest_features'), \
                mock.patch('treadmill.subproc.resolve',
                           return_value='/opt/treadmill'), \
                mock.patch('treadmill.subproc.get_aliases', return_value={}), \
                mock.patch('treadmill.supervisor.control_svscan'), \
                mock.patch('treadmill.supervisor.control_service'), \
                mock.patch('treadmill.supervisor.ensure_not_supervised'), \
                mock.patch('treadmill.runtime.get_runtime',
                           side_effect=lambda _name, env, cdir, param=None:
                           _Runtime(env, cdir, param)):
            return SCENARIOS[name](world)
    finally:
        world.close()


def main():
    """Run the requested scenarios."""
    if len(sys.argv) == 3 and sys.argv[1] == '--child':
        errors = run_one(sys.argv[2])
        for err in errors:
            print('VIOLATION [%s]: %s' % (sys.argv[2], err))
        return 1 if errors else 0

    names = sys.argv[1:] or ORDER
    violated = []
    for name in names:
        # 'resync' depends on the iteration order of a set of str.
        seeds = range(8) if name == 'resync' else [0]
        for seed in seeds:
            env = dict(os.environ, PYTHONHASHSEED=str(seed))
            proc = subprocess.Popen(
                [sys.executable, os.path.abspath(__file__), '--child', name],
                env=env, stdout=subprocess.PIPE, stderr=subprocess.PIPE,
            )
            out, _err = proc.communicate()
            out = out.decode()
            if proc.returncode == 1:
                print('[PYTHONHASHSEED=%d] %s' % (seed, out.strip()))
                violated.append(name)
                break
            elif proc.returncode != 0:
                print('scenario %s failed to run (rc %d): %s' %
                      (name, proc.returncode, _err.decode()[-400:]))
                break
        else:
            print('scenario %s: property holds' % name)
    if violated:
        print('clean-tree violations shown by: %s' % ', '.join(violated))
        return 1
    return 0


if __name__ == '__main__':
    sys.exit(main())
