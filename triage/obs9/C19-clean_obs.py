"""C19: observations on the UNCHANGED tree (no seeded change applied).

Each scenario drives the real admin objects (treadmill.admin._ldap) on top of
the in-memory LDAP server of ldap3 (MOCK_SYNC strategy) and the real
reservation API on top of them, and compares with an independent sum over the
raw LDAP attributes.

  O1  request naming a partition that has no record: Partition.get() returns
      None (the paged search generator is lazy, _test_raise_exceptions runs
      before any result code is known, so NoSuchObjectResult is never raised),
      api.allocation._partition_get() only handles NoSuchObjectResult, and
      _calc_free(None, ...) raises TypeError: failure of the service instead
      of an input error.
  O2  same with 'partition': null, which reservation.json allows: create()
      only defaults the partition when the key is absent.
  O3  reservation.update() that leaves 'traits' out (what `treadmill
      allocation reserve` always does on an existing reservation): the check
      uses rsrc.get('traits', []) == [] so no trait limit applies, but the
      stored reservation keeps its traits: trait limit exceeded.
  O4  reservation.update() with 'traits': []: same bypass, and the admin layer
      (_dict_2_entry skips empty lists) does not clear the stored traits.
  O5  cell-allocation record without a partition attribute (made by
      `treadmill admin ldap allocation assign` followed by `... reserve -c ..
      -m ..` without -p): from_entry() reports partition '_default', but the
      check lists with the LDAP filter (partition=_default) which does not
      match the record: the default partition is over-committed.

Run:  TM_LIB=<tree>/lib/python /venv/bin/python clean_obs.py
Exit 1 when at least one violation shows, 0 otherwise.
"""

from __future__ import print_function

import inspect
import logging
import os
import sys
import warnings

sys.path.insert(0, os.environ['TM_LIB'])
warnings.simplefilter('ignore')
logging.disable(logging.CRITICAL)

# pylint: disable=wrong-import-position
import decorator  # noqa: E402
import ldap3  # noqa: E402

if not hasattr(decorator, 'getargspec'):
    # treadmill.schema needs it, newer 'decorator' releases dropped it.
    decorator.getargspec = inspect.getfullargspec

from treadmill import context  # noqa: E402
from treadmill import exc  # noqa: E402
from treadmill.admin import ldapbackend  # noqa: E402
from treadmill.api import allocation as alloc_api  # noqa: E402

SUFFIX = 'dc=x,dc=com'
CELL = 'c1'
PART = 'p1'


def make_ldap():
    """In-memory LDAP (ldap3 mock strategy) behind the real admin backend."""
    conn = ldap3.Connection(ldap3.Server('fake'),
                            client_strategy=ldap3.MOCK_SYNC,
                            return_empty_attributes=False)
    conn.bind()

    # A real server returns every subtype (attribute option, "attr;opt") of a
    # requested attribute, the ldap3 mock matches attribute names exactly.
    orig = conn.extend.standard.paged_search

    def paged_search(**kwargs):
        wanted = kwargs.get('attributes')
        kwargs['attributes'] = ['*']
        for item in orig(**kwargs):
            if wanted and '*' not in wanted:
                names = {name.lower() for name in wanted}
                item = dict(item)
                item['attributes'] = {
                    key: val
                    for key, val in dict(item['attributes']).items()
                    if key.split(';', 1)[0].lower() in names
                }
            yield item

    conn.extend.standard.paged_search = paged_search

    backend = ldapbackend.AdminLdapBackend(None, SUFFIX)
    # pylint: disable=protected-access
    backend._ldap_conn.ldap = conn
    backend._ldap_conn.write_ldap = conn
    context.GLOBAL.admin._conn = backend

    for dn in [SUFFIX,
               'ou=treadmill,' + SUFFIX,
               'ou=cells,ou=treadmill,' + SUFFIX,
               'ou=allocations,ou=treadmill,' + SUFFIX]:
        conn.add(dn, ['top'], {'description': 'x'})
    return conn


def to_bytes(text):
    """Independent size parser (K/M/G, binary multiples)."""
    text = text.strip().upper()
    mult = {'K': 1 << 10, 'M': 1 << 20, 'G': 1 << 30}
    if text[-1] in mult:
        return int(text[:-1]) * mult[text[-1]]
    return int(text)


def to_cpu(text):
    """Independent cpu parser."""
    return int(text.strip().rstrip('%'))


def raw_usage(conn, cell, partition):
    """Sum of what the raw LDAP records promise in (cell, partition)."""
    conn.search('ou=allocations,ou=treadmill,' + SUFFIX,
                '(objectClass=tmCellAllocation)',
                attributes=['*'])
    used = {'cpu': 0, 'memory': 0, 'disk': 0}
    for item in conn.response:
        attrs = {key.lower(): val
                 for key, val in dict(item['attributes']).items()}
        if cell not in attrs.get('cell', []):
            continue
        if (attrs.get('partition') or ['_default'])[0] != partition:
            continue
        used['cpu'] += to_cpu((attrs.get('cpu') or ['0%'])[0])
        used['memory'] += to_bytes((attrs.get('memory') or ['0G'])[0])
        used['disk'] += to_bytes((attrs.get('disk') or ['0G'])[0])
    return used


def expected_fits(conn, capacity, request):
    """Independent decision."""
    used = raw_usage(conn, CELL, request['partition'])
    return (
        used['cpu'] + to_cpu(request['cpu']) <= to_cpu(capacity['cpu']) and
        used['memory'] + to_bytes(request['memory']) <=
        to_bytes(capacity['memory']) and
        used['disk'] + to_bytes(request['disk']) <= to_bytes(capacity['disk'])
    )


def decide(api, rsrc_id, request):
    """Run the real reservation create, classify the outcome."""
    try:
        api.reservation.create(rsrc_id, dict(request))
        return 'accepted', None
    except exc.InvalidInputError as err:
        return 'rejected', err
    except Exception as err:  # pylint: disable=broad-except
        return 'failure', err


def main():
    """Run the scenarios."""
    conn = make_ldap()
    adm = context.GLOBAL.admin
    api = alloc_api.API()

    capacity = {'cpu': '1000%', 'memory': '100G', 'disk': '100G'}
    gpu_limit = {'trait': 'gpu', 'cpu': '200%', 'memory': '10G',
                 'disk': '10G'}
    adm.cell().create(CELL, {'location': 'xx', 'username': 'u',
                             'version': '1', 'root': '/r'})
    adm.partition().create([PART, CELL], dict(capacity, limits=[gpu_limit]))
    adm.partition().create(['_default', CELL], dict(capacity))
    adm.tenant().create('t1', {'systems': [1]})
    for env in ('prod', 'qa', 'dev', 'uat'):
        adm.allocation().create('t1/' + env, {'environment': env})

    seen = []

    # O1 / O2
    for label, part in (('O1', 'nope'), ('O2', None)):
        outcome, err = decide(api, 't1/prod/' + CELL,
                              {'cpu': '10%', 'memory': '1G', 'disk': '1G',
                               'partition': part})
        print('%s partition=%r: %s %r' % (label, part, outcome, err))
        if outcome == 'failure':
            seen.append('%s: partition %r -> %r instead of an input error' %
                        (label, part, err))

    # O3 / O4
    outcome, err = decide(api, 't1/qa/' + CELL,
                          {'cpu': '100%', 'memory': '1G', 'disk': '1G',
                           'partition': PART, 'traits': ['gpu']})
    assert outcome == 'accepted', (outcome, err)
    for label, extra in (('O3', {}), ('O4', {'traits': []})):
        request = dict({'cpu': '900%', 'memory': '1G', 'disk': '1G',
                        'partition': PART}, **extra)
        try:
            api.reservation.update('t1/qa/' + CELL, dict(request))
            outcome = 'accepted'
        except exc.InvalidInputError as err:
            outcome = 'rejected (%s)' % err
        stored = adm.cell_allocation().get([CELL, 't1/qa'], dirty=True)
        print('%s update %r: %s, stored cpu=%s traits=%r' % (
            label, request, outcome, stored['cpu'], stored['traits']))
        if ('gpu' in stored['traits'] and
                to_cpu(stored['cpu']) > to_cpu(gpu_limit['cpu'])):
            seen.append(
                '%s: reservation with trait gpu holds %s cpu, the gpu limit '
                'of the partition is %s' %
                (label, stored['cpu'], gpu_limit['cpu']))
        # back to a fitting size for the next round.
        adm.cell_allocation().update([CELL, 't1/qa'], {'cpu': '100%'})

    # O5
    cell_alloc = adm.cell_allocation()
    cell_alloc.create([CELL, 't1/dev'],
                      {'assignments': [{'pattern': 'foo.*', 'priority': 1}]})
    cell_alloc.update([CELL, 't1/dev'], {'cpu': '900%', 'memory': '90G'})
    print('O5 record as read back: %r' % cell_alloc.get([CELL, 't1/dev']))
    request = {'cpu': '900%', 'memory': '90G', 'disk': '1G'}
    outcome, err = decide(api, 't1/uat/' + CELL, request)
    print('O5 create %r in _default: %s %r' % (request, outcome, err))
    used = raw_usage(conn, CELL, '_default')
    print('O5 raw usage of (%s, _default): cpu=%d%% memory=%dG' % (
        CELL, used['cpu'], used['memory'] >> 30))
    if used['cpu'] > to_cpu(capacity['cpu']):
        seen.append('O5: default partition holds %d%% cpu of %s' %
                    (used['cpu'], capacity['cpu']))

    if seen:
        print('C19 violated on this tree:')
        for line in seen:
            print('  - ' + line)
        return 1
    print('nothing observed')
    return 0


if __name__ == '__main__':
    sys.exit(main())
