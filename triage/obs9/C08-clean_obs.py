"""C08 - histories for which the UNCHANGED tree violates the property as stated.

Run as:  TM_LIB=<clean tree>/lib/python /venv/bin/python clean_obs.py
Every observation is replayed through the real Master/Loader/Cell code on an
in-memory backend under a virtual clock.  Exit 1 when at least one of the
violations shows (that is the case on the clean tree), exit 0 otherwise.

 obs1  instance with a lease on a down server loses its placement at a master
       fail-over (or reload of the server record) inside the retention window
 obs2  stale "unschedule" mark: freeze [app] + thaw before a cycle, a later
       freeze without apps removes the instance
 obs3  operator freezes / marks up a server that is down: the retention window
       is not honoured any more (kept past since + timeout)
 obs4  schedule_once instance on a frozen server is terminated after the
       reload of the modified server record (evicted flag left set)
"""

from __future__ import print_function

import collections
import copy
import os
import sys
import threading

sys.path.insert(0, os.environ['TM_LIB'])

import mock  # noqa: E402

from treadmill import scheduler  # noqa: E402
from treadmill import zknamespace as z  # noqa: E402
from treadmill.scheduler import backend as be  # noqa: E402
from treadmill.scheduler import master  # noqa: E402

scheduler.DIMENSION_COUNT = 3

CLOCK = [1000.0]
Meta = collections.namedtuple('Meta', 'ctime')


class MemBackend(be.Backend):
    """In memory stand-in for the ZooKeeper backend."""

    def __init__(self):
        super(MemBackend, self).__init__()
        # path -> [data, ctime in ms]
        self.nodes = {'/': [None, 0]}

    def _mk(self, path):
        parts = path.strip('/').split('/')
        for idx in range(1, len(parts) + 1):
            sub = '/' + '/'.join(parts[:idx])
            if sub not in self.nodes:
                self.nodes[sub] = [None, CLOCK[0] * 1000.0]

    def list(self, path):
        if path not in self.nodes:
            raise be.ObjectNotFoundError()
        prefix = path.rstrip('/') + '/'
        return sorted(
            node[len(prefix):] for node in self.nodes
            if node.startswith(prefix) and '/' not in node[len(prefix):]
        )

    def get(self, path):
        return self.get_with_metadata(path)[0]

    def get_with_metadata(self, path):
        if path not in self.nodes:
            raise be.ObjectNotFoundError()
        data, ctime = self.nodes[path]
        return copy.deepcopy(data), Meta(ctime)

    def put(self, path, value):
        self._mk(path)
        self.nodes[path][0] = copy.deepcopy(value)

    def exists(self, path):
        return path in self.nodes

    def ensure_exists(self, path):
        self._mk(path)

    def delete(self, path):
        for node in list(self.nodes):
            if node == path or node.startswith(path + '/'):
                del self.nodes[node]

    def update(self, path, data, check_content=False):
        self.put(path, data)

    def event_object(self):
        return threading.Event()


SERVER = {'memory': '16G', 'cpu': '400%', 'disk': '128G', 'parent': 'rack:1'}
SERVERS = ['s1.xx.com', 's2.xx.com', 's3.xx.com']
FOUND = []


def manifest(**extra):
    data = {'memory': '1G', 'cpu': '10%', 'disk': '1G',
            'affinity': 'foo.web', 'data_retention_timeout': '100s'}
    data.update(extra)
    return data


def make_store(apps):
    store = MemBackend()
    for path in [z.SERVERS, z.SERVER_PRESENCE, z.PLACEMENT, z.SCHEDULED,
                 z.BUCKETS, z.CELL, z.PARTITIONS, z.IDENTITY_GROUPS,
                 z.EVENTS, z.RUNNING, z.BLACKEDOUT_SERVERS, z.FINISHED]:
        store.ensure_exists(path)
    store.put(z.path.bucket('pod:1'), {'traits': None})
    store.put(z.path.bucket('rack:1'), {'traits': None, 'parent': 'pod:1'})
    store.ensure_exists(z.CELL + '/pod:1')
    for name in SERVERS:
        store.put(z.path.server(name), dict(SERVER))
        store.ensure_exists(z.path.server_presence(name))
    for name, data in apps.items():
        store.put(z.path.scheduled(name), data)
    return store


def start_master(store):
    mstr = master.Master(store, 'demo-cell')
    mstr.load_model()
    mstr.init_schedule()
    return mstr


def placement(mstr):
    return {name: app.server for name, app in mstr.cell.apps.items()}


def event(mstr, store, name, payload):
    store.put(z.path.event(name), payload)
    mstr.process_events([name])


def presence_lost(mstr, store, servername):
    store.delete(z.path.server_presence(servername))
    mstr.process_server_presence(store.list(z.SERVER_PRESENCE))


def found(obs, msg):
    FOUND.append(obs)
    print('%s VIOLATION (clean tree): %s' % (obs, msg))


APP1 = 'foo.web#0000000001'
APP2 = 'foo.web#0000000002'
APP3 = 'foo.web#0000000003'


def obs1():
    """Lease + retention + fail-over."""
    CLOCK[0] = 1000.0
    store = make_store({APP1: manifest(lease='1h'), APP2: manifest()})
    mstr = start_master(store)
    down = placement(mstr)[APP1]
    CLOCK[0] = 2000.0
    presence_lost(mstr, store, down)
    mstr.reschedule()
    assert placement(mstr)[APP1] == down
    CLOCK[0] = 2050.0
    mstr = start_master(store)
    now = placement(mstr)[APP1]
    if now != down:
        found('obs1', '%s (lease 1h, retention 100s) was on %s, down since '
              't=2000; after master fail-over at t=2050 it is on %s '
              '(valid_until of the down server in the new model: %s)' % (
                  APP1, down, now, mstr.servers[down].valid_until))


def obs2():
    """Stale unschedule mark."""
    CLOCK[0] = 1000.0
    store = make_store({APP1: manifest(), APP2: manifest(),
                        APP3: manifest()})
    mstr = start_master(store)
    srv = placement(mstr)[APP1]
    CLOCK[0] = 1500.0
    # freeze [APP1] and thaw arrive in the same batch, no cycle in between
    store.put(z.path.event('000-server_state-0000000001'),
              [srv, 'frozen', [APP1]])
    store.put(z.path.event('000-server_state-0000000002'), [srv, 'up', None])
    mstr.process_events(['000-server_state-0000000001',
                         '000-server_state-0000000002'])
    mstr.reschedule()
    assert placement(mstr)[APP1] == srv
    CLOCK[0] = 5000.0
    event(mstr, store, '000-server_state-0000000003', [srv, 'frozen', []])
    mstr.reschedule()
    now = placement(mstr)[APP1]
    if now != srv:
        found('obs2', '%s left %s (now %s) when the server was frozen at '
              't=5000 with an empty unschedule list; the mark dates from the '
              'freeze at t=1500 that was reverted before any cycle' % (
                  APP1, srv, now))


def obs3():
    """Operator touches the state of a server that is down."""
    for verb in ('frozen', 'up'):
        CLOCK[0] = 1000.0
        store = make_store({APP1: manifest(), APP2: manifest(),
                            APP3: manifest()})
        mstr = start_master(store)
        down = placement(mstr)[APP1]
        CLOCK[0] = 2000.0
        presence_lost(mstr, store, down)
        mstr.reschedule()
        CLOCK[0] = 2040.0
        event(mstr, store, '000-server_state-0000000001', [down, verb, []])
        mstr.reschedule()
        CLOCK[0] = 2060.0
        # presence watch fires again (same children)
        mstr.process_server_presence(store.list(z.SERVER_PRESENCE))
        mstr.reschedule()
        CLOCK[0] = 2101.0
        mstr.reschedule()
        if placement(mstr)[APP1] == down:
            state = mstr.servers[down].get_state()
            found('obs3', '"server %s" at t=2040 on %s (no presence since '
                  't=2000): %s (retention 100s) is still placed there in '
                  'the cycle at t=2101, model says %s since %s' % (
                      verb, down, APP1, state[0].value, state[1]))


def obs4():
    """schedule_once instance on a frozen server, server record reloaded."""
    CLOCK[0] = 1000.0
    store = make_store({APP1: manifest(schedule_once=True),
                        APP2: manifest(), APP3: manifest()})
    mstr = start_master(store)
    srv = placement(mstr)[APP1]
    CLOCK[0] = 1500.0
    event(mstr, store, '000-server_state-0000000001', [srv, 'frozen', []])
    mstr.reschedule()
    CLOCK[0] = 1600.0
    data = dict(SERVER)
    data['memory'] = '32G'
    store.put(z.path.server(srv), data)
    event(mstr, store, '000-servers-0000000002', [srv])
    mstr.reschedule()
    if APP1 not in store.list(z.SCHEDULED):
        found('obs4', '%s (schedule_once, not marked for unscheduling) was '
              'on the frozen server %s; after the reload of the modified '
              'server record the next cycle terminated it: /finished: %r' % (
                  APP1, srv, store.get(z.path.finished(APP1))))


def main():
    with mock.patch('time.time', side_effect=lambda: CLOCK[0]):
        obs1()
        obs2()
        obs3()
        obs4()
    if FOUND:
        print('observed on this tree: %s' % ', '.join(sorted(set(FOUND))))
        return 1
    print('none of the clean-tree observations reproduce on this tree')
    return 0


if __name__ == '__main__':
    sys.exit(main())
