"""Clean-tree observation for C01 (not a seeded variant).

A top level bucket is taken out of the cell while one of its servers hosts an
instance ('cell' event after masterapi.cell_remove_bucket), a cycle runs, the
bucket is inserted again (masterapi.cell_insert_bucket, 'cell' event) and a
cycle runs. The real Master/Loader/Cell code is driven over an in-memory
backend.

Exits 1 when the instance ends up in the apps of two servers.

Run:  TM_LIB=<tree>/lib/python /venv/bin/python clean_obs.py
"""

from __future__ import print_function

import collections
import os
import sys
import time

sys.path.insert(0, os.environ['TM_LIB'])

from treadmill import scheduler  # noqa: E402
from treadmill import zknamespace as z  # noqa: E402
from treadmill.scheduler import backend as be  # noqa: E402
from treadmill.scheduler import master  # noqa: E402

scheduler.DIMENSION_COUNT = 3

Meta = collections.namedtuple('Meta', 'ctime')


class MemBackend(be.Backend):
    """Dict based backend, path -> (data, ctime in ms)."""

    def __init__(self):
        super(MemBackend, self).__init__()
        self.nodes = {}

    def _ensure(self, path):
        parts = [p for p in path.split('/') if p]
        for idx in range(1, len(parts) + 1):
            sub = '/' + '/'.join(parts[:idx])
            self.nodes.setdefault(sub, (None, time.time() * 1000))

    def list(self, path):
        path = path.rstrip('/')
        if path and path not in self.nodes:
            raise be.ObjectNotFoundError()
        prefix = path + '/'
        return sorted({node[len(prefix):].split('/')[0]
                       for node in self.nodes if node.startswith(prefix)})

    def get(self, path):
        if path not in self.nodes:
            raise be.ObjectNotFoundError()
        return self.nodes[path][0]

    def get_with_metadata(self, path):
        if path not in self.nodes:
            raise be.ObjectNotFoundError()
        data, ctime = self.nodes[path]
        return data, Meta(ctime)

    def put(self, path, value):
        self._ensure(path)
        self.nodes[path] = (value, self.nodes[path][1])

    def exists(self, path):
        return path in self.nodes

    def ensure_exists(self, path):
        self._ensure(path)

    def delete(self, path):
        for node in [n for n in self.nodes
                     if n == path or n.startswith(path + '/')]:
            del self.nodes[node]

    def update(self, path, data, check_content=False):
        if path not in self.nodes:
            raise be.ObjectNotFoundError()
        self.nodes[path] = (data, self.nodes[path][1])

    def event_object(self):
        import threading
        return threading.Event()


def main():
    """Drives the history."""
    zk = MemBackend()
    for path in (z.CELL, z.BUCKETS, z.SERVERS, z.SERVER_PRESENCE,
                 z.SCHEDULED, z.PLACEMENT, z.PARTITIONS, z.IDENTITY_GROUPS,
                 z.EVENTS, z.BLACKEDOUT_SERVERS):
        zk.ensure_exists(path)

    for pod in ('pod:a', 'pod:b'):
        zk.put(z.path.bucket(pod), {'traits': None})
        zk.put(z.path.cell(pod), {})
    for name, pod in (('sa', 'pod:a'), ('sb', 'pod:b')):
        zk.put(z.path.server(name), {'memory': '16G', 'cpu': '400%',
                                     'disk': '100G', 'parent': pod})
        zk.put(z.path.server_presence(name), {})
    zk.put(z.path.scheduled('proid.app#0000000001'),
           {'memory': '4G', 'cpu': '100%', 'disk': '10G',
            'affinity': 'proid.app'})

    mstr = master.Master(zk, 'cell')
    mstr.load_model()
    mstr.init_schedule()

    app = mstr.cell.apps['proid.app#0000000001']
    first = app.server
    assert first is not None
    pod = mstr.servers[first].parent.name
    print('placed on', first, 'in', pod)

    # masterapi.cell_remove_bucket + 'cell' event.
    zk.delete(z.path.cell(pod))
    mstr.load_cell()
    mstr.reschedule()
    mstr.check_placement_integrity()
    print('after bucket left the cell: app.server =', app.server)

    # masterapi.cell_insert_bucket + 'cell' event.
    zk.put(z.path.cell(pod), {})
    mstr.load_cell()
    mstr.reschedule()
    mstr.check_placement_integrity()

    where = sorted(name for name, server in mstr.cell.members().items()
                   if app.name in server.apps)
    print('app.server =', app.server, '; servers that list it:', where)
    for name in where:
        server = mstr.cell.members()[name]
        print('  %s free %s of %s' % (name, server.free_capacity,
                                      server.init_capacity))

    if len(where) > 1 or where != [app.server]:
        print('C01 VIOLATED on the unchanged tree: %s is in the apps of %r, '
              'app.server is %r' % (app.name, where, app.server))
        return 1

    print('C01 holds')
    return 0


if __name__ == '__main__':
    sys.exit(main())
