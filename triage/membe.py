import sys, time, collections
sys.path.insert(0,'/repo/lib/python')
from treadmill.scheduler import backend as be
class Meta:
    def __init__(s, ctime): s.ctime=ctime
class Mem(be.Backend):
    def __init__(s):
        s.d={}; s.ct={}; s.clock=[1000.0]; s.log=[]
    def _parents(s,p):
        parts=p.strip('/').split('/')
        for i in range(1,len(parts)):
            pp='/'+'/'.join(parts[:i])
            if pp not in s.d: s.d[pp]=None; s.ct[pp]=s.clock[0]*1000
    def list(s,p):
        if p not in s.d and p!='/': raise be.ObjectNotFoundError()
        pre=p.rstrip('/')+'/'
        return sorted({k[len(pre):].split('/')[0] for k in s.d if k.startswith(pre)})
    def get(s,p):
        if p not in s.d: raise be.ObjectNotFoundError()
        return s.d[p]
    def get_with_metadata(s,p):
        if p not in s.d: raise be.ObjectNotFoundError()
        return s.d[p], Meta(s.ct[p])
    def put(s,p,v):
        s.log.append(('put',p,v)); s._parents(p)
        if p not in s.d: s.ct[p]=s.clock[0]*1000
        s.d[p]=v
    def exists(s,p): return p in s.d
    def ensure_exists(s,p):
        s._parents(p)
        if p not in s.d: s.d[p]=None; s.ct[p]=s.clock[0]*1000
    def delete(s,p):
        s.log.append(('del',p))
        for k in [k for k in s.d if k==p or k.startswith(p+'/')]: del s.d[k]
    def update(s,p,data,check_content=False):
        if p not in s.d: raise be.ObjectNotFoundError()
        s.d[p]=data
    def event_object(s):
        import threading; return threading.Event()
