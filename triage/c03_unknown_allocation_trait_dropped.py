"""Triage replay (not a check): an allocation requires a trait no server of the
cell offers. load_allocations encodes it without use_invalid, so the
requirement silently becomes 0 and its instances are placed on servers that
lack the trait (load_app uses use_invalid=True for instance traits)."""
import os, sys; sys.path.insert(0, os.path.dirname(os.path.abspath(__file__))); sys.path.insert(0,'/repo/lib/python')
import mock
from membe import Mem
from treadmill import scheduler
from treadmill.scheduler import master
scheduler.DIMENSION_COUNT=3
b=Mem(); now=[100000.0]
with mock.patch('time.time', lambda: now[0]):
    b.clock=now
    b.put('/buckets/pod:1', {'parent': None}); b.put('/buckets/rack:1', {'parent':'pod:1'})
    b.put('/cell/pod:1', {})
    b.put('/servers/s1', {'parent':'rack:1','memory':'16G','disk':'128G','cpu':'400%','up_since':now[0],'traits':[]})
    b.put('/server.presence/s1', {'valid_until': now[0]+30*86400})
    b.put('/allocations', [{'name':'t/a','partition':'_default','rank':100,'memory':'4G','cpu':'100%','disk':'10G',
                            'traits':['gpu'],'assignments':[{'pattern':'p.*','priority':1}]}])
    b.put('/scheduled/p.a#0000000001', {'memory':'1G','disk':'1G','cpu':'10%','affinity':'p.a'})
    b.put('/scheduled/q.b#0000000002', {'memory':'1G','disk':'1G','cpu':'10%','affinity':'q.b','traits':['gpu']})
    m=master.Master(b,'cell'); m.create_rootns(); m.load_model(); m.init_schedule()
    for n,a in m.cell.apps.items():
        print(n, 'alloc', a.allocation.name, 'alloc.traits', a.allocation.traits, 'app.traits', a.traits, '->', a.server)
