"""Triage replay (not a check): a 'cell' event re-runs Loader.load_cell, which
calls Cell.reset_children (children detached, aggregates kept) and add_node
again for every top-level bucket: the cell's affinity counters are added a
second time."""
import os, sys; sys.path.insert(0, os.path.dirname(os.path.abspath(__file__))); sys.path.insert(0,'/repo/lib/python')
import mock
from membe import Mem
from treadmill import scheduler
from treadmill.scheduler import master
scheduler.DIMENSION_COUNT=3
b=Mem(); now=[100000.0]
with mock.patch('time.time', lambda: now[0]):
    b.clock=now
    b.put('/buckets/pod:1', {'parent': None}); b.put('/buckets/rack:1', {'parent':'pod:1'})
    b.put('/cell/pod:1', {})
    b.put('/servers/s1', {'parent':'rack:1','memory':'16G','disk':'128G','cpu':'400%','up_since':now[0]})
    b.put('/server.presence/s1', {'valid_until': now[0]+30*86400})
    b.put('/scheduled/p.a#0000000001', {'memory':'1G','disk':'1G','cpu':'10%','affinity':'p.a','affinity_limits':{'cell':1}})
    m=master.Master(b,'cell'); m.create_rootns(); m.load_model(); m.init_schedule()
    print('placed on', m.cell.apps['p.a#0000000001'].server, 'cell counter', dict(m.cell.affinity_counters), 'pod counter', dict(m.buckets['pod:1'].affinity_counters))
    m.resource_event_handlers['cell']('0-cell-0000000001')      # a "cell" event
    print('after cell event: cell counter', dict(m.cell.affinity_counters), 'pod counter', dict(m.buckets['pod:1'].affinity_counters))
